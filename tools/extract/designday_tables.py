"""Gen/DesignDayTables.lean: constants and IDF field layout of designday.py.

Extracted (DESIGN.md 3.1, C16):
  * DryBulbCondition.HOURLY_MULTIPLIERS            -> `hourlyMultipliers` (generic over OfScientific)
  * DesignDay.HEATING_KEYS / COOLING_KEYS / EXTREME_KEYS / DAY_TYPES / IDF_COMMENTS,
    HumidityCondition.HUMIDITY_TYPES
  * to_idf: the `ep_vals = [...]` list (index -> attribute), the humidity / sky overrides
    `ep_vals[k] = ...` with the condition they stand under, and the `ep_vals.pop()` of the Tau branch
  * from_idf: every `ep_fields[k]` with the role it plays (assignment target or constructor
    argument position) and the `len(ep_fields) > k` guard of that statement
  * the expression for `start_moy` in DesignDay.hourly_datetimes and _SkyCondition._get_datetimes
    (`doy * 1440` or `(doy - 1) * 1440`): the day offset that is subtracted
Anything outside these shapes raises ExtractError (tie broken: translator).
"""
import ast
from .common import (parse_file, find_class, find_func, find_assign, const_fold, lean_str,
                     lean_str_list, write_if_changed, ExtractError, HEADER)

ATTR_SLOT = {
    'name': 'name',
    'sky_condition.date.month': 'month',
    'sky_condition.date.day': 'day',
    'day_type': 'dayType',
    'dry_bulb_condition.dry_bulb_max': 'dbMax',
    'dry_bulb_condition.dry_bulb_range': 'dbRange',
    'dry_bulb_condition.modifier_type': 'modType',
    'dry_bulb_condition.modifier_schedule': 'modSched',
    'humidity_condition.humidity_type': 'humType',
    'humidity_condition.schedule': 'humSched',
    'humidity_condition.wet_bulb_range': 'wbRange',
    'humidity_condition.barometric_pressure': 'pressure',
    'humidity_condition.humidity_value': 'humValue',
    'wind_condition.wind_speed': 'windSpeed',
    'wind_condition.wind_direction': 'windDir',
    'sky_condition.beam_schedule': 'beamSched',
    'sky_condition.diffuse_schedule': 'diffSched',
    'sky_condition.clearness': 'clearness',
    'sky_condition._clearness': 'clearness',
    'sky_condition.tau_b': 'tauB',
    'sky_condition._tau_b': 'tauB',
    'sky_condition.tau_d': 'tauD',
    'sky_condition._tau_d': 'tauD',
}
FLAG_SLOT = {
    'humidity_condition.rain': 'rain',
    'humidity_condition.snow_on_ground': 'snow',
    'sky_condition.daylight_savings': 'dst',
}
SLOTS = ['name', 'month', 'day', 'dayType', 'dbMax', 'dbRange', 'modType', 'modSched', 'humType',
         'humSched', 'wbRange', 'pressure', 'humValue', 'windSpeed', 'windDir', 'beamSched',
         'diffSched', 'clearness', 'tauB', 'tauD', 'rain', 'snow', 'dst', 'tauModel', 'blank']

FROM_ROLES = {
    'name': 'iName', 'day_type': 'iDayType',
    'DryBulbCondition.0': 'iDbMax', 'DryBulbCondition.1': 'iDbRange',
    'DryBulbCondition.2': 'iModType', 'DryBulbCondition.3': 'iModSched',
    'h_type': 'iHumType', 'h_val': 'iHumValue', 'rain': 'iRain', 'snow': 'iSnow',
    "h_val@h_type == 'HumidityRatio'": 'iHumRatio', "h_val@h_type == 'Enthalpy'": 'iEnthalpy',
    'HumidityCondition.2': 'iPressure', 'HumidityCondition.5': 'iHumSched',
    'WindCondition.0': 'iWindSpeed', 'WindCondition.1': 'iWindDir',
    'Date.0': 'iMonth', 'Date.1': 'iDay', 'dl_save': 'iDst', 'sky_model': 'iSkyModel',
    'sky_clr': 'iClearness', 't_b': 'iTauB', 't_d': 'iTauD',
    'sky_condition.beam_schedule': 'iBeamSched', 'sky_condition.diffuse_schedule': 'iDiffSched',
}
GUARDED = {'rain': 'gRain', 'snow': 'gSnow', 'dl_save': 'gDst', 'sky_model': 'gSkyModel',
           'sky_clr': 'gClearness', 't_b': 'gTauB', 't_d': 'gTauD'}


def _self_path(node):
    """`self.a.b.c` -> 'a.b.c' (None when the expression is something else)."""
    parts = []
    while isinstance(node, ast.Attribute):
        parts.append(node.attr)
        node = node.value
    if isinstance(node, ast.Name) and node.id == 'self' and parts:
        return '.'.join(reversed(parts))
    return None


def _slot_of(node, tau_names):
    if isinstance(node, ast.Constant) and isinstance(node.value, str):
        return '.blank' if node.value == '' else '(.lit %s)' % lean_str(node.value)
    p = _self_path(node)
    if p is not None:
        if p not in ATTR_SLOT:
            raise ExtractError('to_idf: unknown attribute self.%s' % p)
        return '.' + ATTR_SLOT[p]
    if isinstance(node, ast.IfExp):
        tp = _self_path(node.test)
        b, o = node.body, node.orelse
        if not (isinstance(b, ast.Constant) and isinstance(o, ast.Constant)):
            raise ExtractError('to_idf: unsupported conditional at line %d' % node.lineno)
        if tp in FLAG_SLOT and (b.value, o.value) == ('Yes', 'No'):
            return '.' + FLAG_SLOT[tp]
        if tp in FLAG_SLOT and (b.value, o.value) == ('No', 'Yes'):
            raise ExtractError('to_idf: flag %s written inverted' % tp)
        if tp in ('sky_condition.use_2017', 'sky_condition._use_2017'):
            tau_names[:] = [b.value, o.value]
            return '.tauModel'
        raise ExtractError('to_idf: unsupported conditional on %s' % tp)
    raise ExtractError('to_idf: unsupported entry %s at line %d' % (type(node).__name__, node.lineno))


def _sub_assign(stmt, var):
    """`var[k] = expr` -> (k, expr)"""
    if isinstance(stmt, ast.Assign) and len(stmt.targets) == 1:
        t = stmt.targets[0]
        if isinstance(t, ast.Subscript) and isinstance(t.value, ast.Name) and t.value.id == var:
            k = const_fold(t.slice)
            if isinstance(k, int):
                return k, stmt.value
    return None


def _hum_literals(test):
    """`self.humidity_condition.humidity_type == 'A' or ... == 'B'` -> ['A', 'B']"""
    tests = test.values if isinstance(test, ast.BoolOp) and isinstance(test.op, ast.Or) else [test]
    out = []
    for t in tests:
        if (isinstance(t, ast.Compare) and len(t.ops) == 1 and isinstance(t.ops[0], ast.Eq)
                and _self_path(t.left) in ('humidity_condition.humidity_type',
                                           'humidity_condition._humidity_type')
                and isinstance(t.comparators[0], ast.Constant)):
            out.append(t.comparators[0].value)
        else:
            return None
    return out


def _isinstance_sky(test):
    if (isinstance(test, ast.Call) and isinstance(test.func, ast.Name) and test.func.id == 'isinstance'
            and len(test.args) == 2 and _self_path(test.args[0]) == 'sky_condition'
            and isinstance(test.args[1], ast.Name)):
        return test.args[1].id
    return None


def _to_idf(func):
    tau_names = []
    base = None
    hum, clear, tau, pops = [], [], [], {'ASHRAEClearSky': 0, 'ASHRAETau': 0}

    def visit_if(node):
        lits = _hum_literals(node.test)
        sky = _isinstance_sky(node.test)
        if lits is None and sky is None:
            raise ExtractError('to_idf: unsupported condition at line %d' % node.lineno)
        for st in node.body:
            sa = _sub_assign(st, 'ep_vals')
            if sa is not None:
                k, v = sa
                slot = _slot_of(v, tau_names)
                if lits is not None:
                    for l in lits:
                        hum.append((l, k, slot))
                elif sky == 'ASHRAEClearSky':
                    clear.append((k, slot))
                elif sky == 'ASHRAETau':
                    tau.append((k, slot))
                else:
                    raise ExtractError('to_idf: unknown sky class %s' % sky)
            elif (isinstance(st, ast.Expr) and isinstance(st.value, ast.Call)
                  and isinstance(st.value.func, ast.Attribute) and st.value.func.attr == 'pop'
                  and not st.value.args and sky in pops):
                pops[sky] += 1
            else:
                raise ExtractError('to_idf: unsupported statement at line %d' % st.lineno)
        for st in node.orelse:
            if isinstance(st, ast.If):
                visit_if(st)
            else:
                raise ExtractError('to_idf: unsupported else branch at line %d' % st.lineno)

    seen_join = False
    for st in func.body:
        if isinstance(st, ast.Expr) and isinstance(st.value, ast.Constant):
            continue                                         # docstring
        if isinstance(st, ast.Assign) and isinstance(st.targets[0], ast.Name) \
                and st.targets[0].id == 'ep_vals':
            if not isinstance(st.value, ast.List):
                raise ExtractError('to_idf: ep_vals is no longer a list display')
            base = [_slot_of(e, tau_names) for e in st.value.elts]
            continue
        if isinstance(st, ast.If) and not seen_join:
            visit_if(st)
            continue
        if base is not None:
            seen_join = True                                 # the rendering part (compared as text)
            continue
        raise ExtractError('to_idf: unexpected statement at line %d' % st.lineno)
    if base is None:
        raise ExtractError('to_idf: ep_vals list not found')
    if len(tau_names) != 2:
        raise ExtractError('to_idf: Tau model name expression not found')
    return base, hum, clear, tau, pops, tau_names


def _from_idf(func):
    roles, guards = {}, {}

    def guards_in(node):
        out = []
        for n in ast.walk(node):
            if (isinstance(n, ast.Compare) and len(n.ops) == 1 and isinstance(n.ops[0], ast.Gt)
                    and isinstance(n.left, ast.Call) and isinstance(n.left.func, ast.Name)
                    and n.left.func.id == 'len' and isinstance(n.comparators[0], ast.Constant)):
                out.append(n.comparators[0].value)
        return out

    def fields_in(node):
        out = []
        for n in ast.walk(node):
            if (isinstance(n, ast.Subscript) and isinstance(n.value, ast.Name)
                    and n.value.id == 'ep_fields'):
                k = const_fold(n.slice)
                if not isinstance(k, int):
                    raise ExtractError('from_idf: non-literal field index')
                out.append(k)
        return out

    def put(role, k):
        if role in roles and roles[role] != k:
            raise ExtractError('from_idf: role %s read from fields %d and %d' % (role, roles[role], k))
        roles[role] = k

    def visit(stmts, cond):
        for st in stmts:
            if isinstance(st, ast.If):
                test_src = ast.unparse(st.test)
                g = guards_in(st.test)
                if g and 'sky_model' not in guards:
                    guards['sky_model'] = g[0]
                visit(st.body, test_src)
                visit(st.orelse, cond)
                continue
            if isinstance(st, ast.Assign) and len(st.targets) == 1:
                t = st.targets[0]
                tname = t.id if isinstance(t, ast.Name) else (
                    ast.unparse(t) if isinstance(t, ast.Attribute) else None)
                if isinstance(st.value, ast.Call) and isinstance(st.value.func, ast.Name) \
                        and st.value.func.id[:1].isupper():
                    for i, a in enumerate(st.value.args):
                        for k in fields_in(a):
                            put('%s.%d' % (st.value.func.id, i), k)
                    continue
                ks = set(fields_in(st.value))
                if ks and tname:
                    if len(ks) != 1:
                        raise ExtractError('from_idf: %s reads several fields' % tname)
                    role = tname
                    if tname == 'h_val' and cond and cond.startswith('h_type =='):
                        role = 'h_val@' + cond
                    put(role, ks.pop())
                    g = guards_in(st.value)
                    if g:
                        guards[tname] = g[0]
    visit(func.body, None)
    missing = [r for r in FROM_ROLES if r not in roles]
    extra = [r for r in roles if r not in FROM_ROLES]
    if missing or extra:
        raise ExtractError('from_idf: roles changed; missing %s, unexpected %s' % (missing, extra))
    for r in GUARDED:
        if r not in guards:
            raise ExtractError('from_idf: length guard of %s not found' % r)
    return roles, guards


def _day_offset(func, what):
    """`start_moy = <doy attr> * 1440` -> 0 ; `(<doy attr> - k) * 1440` -> k."""
    for n in ast.walk(func):
        if isinstance(n, ast.Assign) and isinstance(n.targets[0], ast.Name) \
                and n.targets[0].id == 'start_moy' and isinstance(n.value, ast.BinOp) \
                and isinstance(n.value.op, ast.Mult):
            l, r = n.value.left, n.value.right
            if not (isinstance(r, ast.Constant) and r.value == 1440):
                continue
            if isinstance(l, ast.Attribute) and l.attr == 'doy':
                return 0
            if (isinstance(l, ast.BinOp) and isinstance(l.op, ast.Sub)
                    and isinstance(l.left, ast.Attribute) and l.left.attr == 'doy'
                    and isinstance(l.right, ast.Constant) and isinstance(l.right.value, int)
                    and l.right.value >= 0):
                return l.right.value
            raise ExtractError('%s: unsupported start_moy expression' % what)
    raise ExtractError('%s: start_moy = <doy> * 1440 not found' % what)


def _lit(x):
    if isinstance(x, bool):
        raise ExtractError('boolean multiplier')
    if isinstance(x, int):
        return '%d.0' % x
    s = repr(x)
    if 'e' in s or 'E' in s or 'n' in s:
        raise ExtractError('unsupported multiplier literal %s' % s)
    return s


def extract():
    tree, _ = parse_file('ladybug/designday.py')
    dd = find_class(tree, 'DesignDay')
    dbc = find_class(tree, 'DryBulbCondition')
    hc = find_class(tree, 'HumidityCondition')
    sky = find_class(tree, '_SkyCondition')
    mults_node = find_assign(dbc, 'HOURLY_MULTIPLIERS')
    if not isinstance(mults_node, (ast.Tuple, ast.List)):
        raise ExtractError('HOURLY_MULTIPLIERS is not a tuple display')
    mults = []
    for e in mults_node.elts:
        if isinstance(e, ast.Constant) and isinstance(e.value, (int, float)) \
                and not isinstance(e.value, bool) and e.value >= 0:
            mults.append(e.value)
        else:
            raise ExtractError('HOURLY_MULTIPLIERS: unsupported entry at line %d' % e.lineno)
    keys = {k: const_fold(find_assign(dd, k)) for k in
            ('HEATING_KEYS', 'COOLING_KEYS', 'EXTREME_KEYS', 'DAY_TYPES', 'IDF_COMMENTS')}
    hum_types = const_fold(find_assign(hc, 'HUMIDITY_TYPES'))
    base, hum, clear, tau, pops, tau_names = _to_idf(find_func(dd, 'to_idf'))
    roles, guards = _from_idf(find_func(dd, 'from_idf'))
    off_hourly = _day_offset(find_func(dd, 'hourly_datetimes'), 'hourly_datetimes')
    off_sky = _day_offset(find_func(sky, '_get_datetimes'), '_get_datetimes')

    lines = [HEADER % ('designday_tables.py', 'ladybug/designday.py'), 'namespace Gen.DD', '',
             '/-- One cell of the `ep_vals` list of `DesignDay.to_idf` (which attribute is written). -/',
             'inductive Slot where',
             '  | ' + ' | '.join(s for s in SLOTS),
             '  | lit (s : String)',
             '  deriving DecidableEq, Repr', '',
             '/-- `DryBulbCondition.HOURLY_MULTIPLIERS` -/',
             'def hourlyMultipliers {α : Type} [OfScientific α] : List α := ['
             + ', '.join(_lit(x) for x in mults) + ']',
             'def heatingKeys : List String := ' + lean_str_list(keys['HEATING_KEYS']),
             'def coolingKeys : List String := ' + lean_str_list(keys['COOLING_KEYS']),
             'def extremeKeys : List String := ' + lean_str_list(keys['EXTREME_KEYS']),
             'def dayTypes : List String := ' + lean_str_list(keys['DAY_TYPES']),
             'def idfComments : List String := ' + lean_str_list(keys['IDF_COMMENTS']),
             'def humidityTypes : List String := ' + lean_str_list(hum_types), '',
             '/-- `ep_vals = [...]` of `to_idf`, in order. -/',
             'def toIdfBase : List Slot := [' + ', '.join(base) + ']',
             '/-- `ep_vals[k] = ...` under `humidity_type == <literal>`. -/',
             'def humOverrides : List (String × Nat × Slot) := ['
             + ', '.join('(%s, %d, %s)' % (lean_str(l), k, s) for l, k, s in hum) + ']',
             '/-- `ep_vals[k] = ...` under `isinstance(sky_condition, ASHRAEClearSky)`. -/',
             'def clearOverrides : List (Nat × Slot) := ['
             + ', '.join('(%d, %s)' % (k, s) for k, s in clear) + ']',
             'def clearPops : Nat := %d' % pops['ASHRAEClearSky'],
             '/-- `ep_vals[k] = ...` under `isinstance(sky_condition, ASHRAETau)`. -/',
             'def tauOverrides : List (Nat × Slot) := ['
             + ', '.join('(%d, %s)' % (k, s) for k, s in tau) + ']',
             'def tauPops : Nat := %d' % pops['ASHRAETau'],
             'def tauName2017 : String := ' + lean_str(tau_names[0]),
             'def tauName : String := ' + lean_str(tau_names[1]), '',
             '/-! `ep_fields[k]` of `from_idf` by role, and the `len(ep_fields) > k` guards -/']
    for role, nm in FROM_ROLES.items():
        lines.append('def %s : Nat := %d' % (nm, roles[role]))
    for role, nm in GUARDED.items():
        lines.append('def %s : Nat := %d' % (nm, guards[role]))
    lines += ['', '/-- days subtracted from `doy` before `* 1440` in `DesignDay.hourly_datetimes` -/',
              'def hourlyDayOffset : Nat := %d' % off_hourly,
              '/-- days subtracted from `doy` before `* 1440` in `_SkyCondition._get_datetimes` -/',
              'def skyDayOffset : Nat := %d' % off_sky,
              '', 'end Gen.DD', '']
    write_if_changed('DesignDayTables', '\n'.join(lines))
    return {'multipliers': mults, 'base': base, 'hum': hum, 'clear': clear, 'tau': tau, 'pops': pops,
            'roles': roles, 'guards': guards, 'offsets': (off_hourly, off_sky), 'keys': keys}


if __name__ == '__main__':
    import pprint
    pprint.pprint(extract())
