"""Generic part of the formula translator: a small Python-`ast` -> Lean translator for straight-line
numeric code over the generic numeric interface of lean/Ladybug/Transc.lean (DESIGN.md 3.1 / 4 iii).

Used by tools/extract/psychro_formulas.py (C09); written to be reused by the other numeric properties
(C05, C10, C11): import `Translator`, describe what to translate, call `emit_file`.

Supported subset (anything else raises ExtractError naming the function and the line):
  * statements: docstring, `x = <expr>` (single name target, also re-binding: becomes a shadowing `let`),
    `return <expr>` / `return a, b` (tuple -> product), `if / elif / else` whose branches are again in the
    subset (the statements after an `if` are copied into every branch that does not return, so no
    phi-nodes are needed and the translation is obviously meaning-preserving), `pass`;
  * expressions: names (parameters, earlier locals, mapped attribute chains such as `self._x_dim`),
    int / float literals (emitted with the *decimal text of the source*, ints as `n.0`), `+ - * /`, `**`
    and `math.pow` (-> `Transc.pow`), unary minus / plus, `math.exp/log/log10/sqrt/sin/cos/tan/asin/acos/
    atan/atan2/floor/fabs`, `abs`, `math.pi`, `math.e`, `math.radians/degrees`, `min/max` of two arguments
    (CPython's tie/NaN behaviour: `min(a, b) = b if b < a else a`), `a if c else b`, comparisons
    `< <= > >=` (also chained), `and / or / not` in tests, calls of other translated functions of the same
    module (positional / keyword arguments, defaults filled in from the callee's signature) and of
    functions declared `external` (mapped to a hand-written Lean definition);
  * NOT supported, by design: loops, try/except, augmented assignment, attribute/subscript stores, `==`/`!=`
    on numbers (no `DecidableEq` in the interface), `//`, `%`, calls of anything else, strings.
    Loop bodies can be translated piecewise with `block()` (a run of straight-line statements as a function
    of its free variables) and `test()` (a condition as a `Prop`-valued definition).

Integers: Python ints that meet floats are converted exactly; the translator emits every int literal as a
scientific literal `n.0`, which is the same function as long as no integer-only operation is involved
(those are rejected).  `from __future__ import division` / Python 3 true division is assumed.
"""
import ast
import re

from .common import ExtractError, parse_file, write_if_changed, HEADER

VARIABLES = ('variable {α : Type} [Add α] [Sub α] [Mul α] [Div α] [Neg α] [OfScientific α]\n'
             '  [LT α] [LE α] [DecidableLT α] [DecidableLE α] [Transc α]\n')

LEAN_KEYWORDS = {
    'at', 'from', 'end', 'open', 'in', 'do', 'then', 'else', 'fun', 'let', 'have', 'show', 'by', 'with', 'where',
    'if', 'match', 'Type', 'Prop', 'Sort', 'def', 'theorem', 'instance', 'class', 'structure', 'namespace',
    'section', 'variable', 'import', 'using', 'calc', 'return', 'for', 'unless', 'mut', 'macro', 'syntax',
    'deriving', 'extends', 'local', 'private', 'protected', 'export', 'universe', 'axiom', 'example', 'infix',
    'notation', 'prefix', 'postfix', 'set_option', 'attribute', 'mutual', 'inductive', 'abbrev', 'opaque',
    'partial', 'unsafe', 'noncomputable', 'nomatch', 'nofun', 'this', 'suffices', 'obtain', 'exists', 'forall',
    'true', 'false',
}

MATH_UNARY = {'exp': 'exp', 'log': 'log', 'log10': 'log10', 'sqrt': 'sqrt', 'sin': 'sin', 'cos': 'cos',
              'tan': 'tan', 'asin': 'asin', 'acos': 'acos', 'atan': 'atan', 'floor': 'floor'}

_NUM = re.compile(r'^(\d*)(?:\.(\d*))?(?:[eE]([+-]?\d+))?$')


def lean_ident(name):
    n = name.lstrip('_') or 'x'
    if n in LEAN_KEYWORDS:
        n += '_'
    if not re.match(r'^[A-Za-z][A-Za-z0-9_]*$', n):
        raise ExtractError('cannot use %r as a Lean identifier' % name)
    return n


def lean_literal(text, where=''):
    """Lean scientific literal with the same decimal value as the Python literal `text`."""
    t = text.strip().replace('_', '')
    m = _NUM.match(t)
    if not m or (not m.group(1) and not m.group(2)):
        raise ExtractError('unsupported numeric literal %r %s' % (text, where))
    ip, fp, ex = m.group(1) or '0', m.group(2), m.group(3)
    if fp is None or fp == '':
        fp = '0'
    out = '%s.%s' % (ip, fp)
    if ex is not None and int(ex) != 0:
        out += 'e%d' % int(ex)
    return out


class FuncInfo(object):
    def __init__(self, pyname, lean_name, params, defaults, external=False):
        self.pyname = pyname
        self.lean_name = lean_name
        self.params = params            # python parameter names (without self)
        self.defaults = defaults        # {param: lean literal text}
        self.external = external


class Translator(object):
    """Collects Lean definitions translated from one Python source file."""

    def __init__(self, rel_path, attr_params=None):
        self.rel_path = rel_path
        self.tree, self.src = parse_file(rel_path)
        self.funcs = {}                 # python name -> FuncInfo (translated or external), callable from code
        self.defs = []                  # (lean name, lean source text)
        self.attr_params = attr_params or {}
        self.report = []                # human-readable list of what was emitted

    # ---- lookup

    def find(self, name, cls=None):
        scope = self.tree
        if cls:
            for n in self.tree.body:
                if isinstance(n, ast.ClassDef) and n.name == cls:
                    scope = n
                    break
            else:
                raise ExtractError('%s: class %s not found' % (self.rel_path, cls))
        for n in scope.body:
            if isinstance(n, ast.FunctionDef) and n.name == name:
                return n
        raise ExtractError('%s: function %s not found' % (self.rel_path, name))

    def _err(self, fn, node, msg):
        raise ExtractError('%s:%s %s: %s' % (self.rel_path, getattr(node, 'lineno', '?'), fn, msg))

    def signature(self, node, fn):
        a = node.args
        if a.vararg or a.kwarg or a.kwonlyargs or getattr(a, 'posonlyargs', []):
            self._err(fn, node, 'unsupported parameter kinds')
        params = [x.arg for x in a.args]
        if params and params[0] in ('self', 'cls'):
            params = params[1:]
        defaults = {}
        for p, d in zip(reversed([x.arg for x in a.args]), reversed(a.defaults)):
            defaults[p] = self.expr(d, fn, set(), {})
        return params, defaults

    def external(self, pyname, lean_name):
        """Declare `pyname` (a function of this module that is NOT translated) as callable: calls are mapped
        to the hand-written Lean definition `lean_name`."""
        node = self.find(pyname)
        params, defaults = self.signature(node, pyname)
        self.funcs[pyname] = FuncInfo(pyname, lean_name, params, defaults, external=True)

    # ---- expressions

    def literal(self, node, fn):
        v = node.value
        if isinstance(v, bool) or not isinstance(v, (int, float)):
            self._err(fn, node, 'unsupported constant %r' % (v,))
        text = ast.get_source_segment(self.src, node)
        if text is None:
            text = repr(v)
        return lean_literal(text, 'at line %s' % node.lineno)

    def attr_chain(self, node):
        parts = []
        while isinstance(node, ast.Attribute):
            parts.append(node.attr)
            node = node.value
        if isinstance(node, ast.Name):
            parts.append(node.id)
            return '.'.join(reversed(parts))
        return None

    def expr(self, node, fn, bound, used):
        """Lean text of a numeric expression.  `bound`: names in scope; `used`: dict collecting free names."""
        E = lambda n: self.expr(n, fn, bound, used)
        if isinstance(node, ast.Constant):
            return self.literal(node, fn)
        if isinstance(node, ast.Name):
            if node.id not in bound:
                self._err(fn, node, 'name %s is not a parameter or an earlier local' % node.id)
            used[node.id] = True
            return lean_ident(node.id)
        if isinstance(node, ast.Attribute):
            chain = self.attr_chain(node)
            if chain == 'math.pi':
                return 'Transc.pi'
            if chain == 'math.e':
                return '2.718281828459045'
            if chain in self.attr_params:
                p = self.attr_params[chain]
                if p not in bound:
                    self._err(fn, node, 'attribute %s maps to %s which is not a parameter here' % (chain, p))
                used[p] = True
                return lean_ident(p)
            self._err(fn, node, 'unsupported attribute %s' % chain)
        if isinstance(node, ast.UnaryOp):
            if isinstance(node.op, ast.USub):
                return '(-%s)' % E(node.operand)
            if isinstance(node.op, ast.UAdd):
                return E(node.operand)
            self._err(fn, node, 'unsupported unary operator in a numeric expression')
        if isinstance(node, ast.BinOp):
            ops = {ast.Add: '+', ast.Sub: '-', ast.Mult: '*', ast.Div: '/'}
            if type(node.op) in ops:
                return '(%s %s %s)' % (E(node.left), ops[type(node.op)], E(node.right))
            if isinstance(node.op, ast.Pow):
                return '(Transc.pow %s %s)' % (E(node.left), E(node.right))
            self._err(fn, node, 'unsupported operator %s' % type(node.op).__name__)
        if isinstance(node, ast.IfExp):
            return '(if %s then %s else %s)' % (self.test_expr(node.test, fn, bound, used), E(node.body),
                                              E(node.orelse))
        if isinstance(node, ast.Call):
            return self.call(node, fn, bound, used)
        if isinstance(node, ast.Tuple):
            return '(%s)' % ', '.join(E(e) for e in node.elts)
        self._err(fn, node, 'unsupported expression %s' % type(node).__name__)

    def call(self, node, fn, bound, used):
        E = lambda n: self.expr(n, fn, bound, used)
        f = node.func
        chain = self.attr_chain(f) if isinstance(f, ast.Attribute) else (f.id if isinstance(f, ast.Name) else None)
        args = node.args
        if any(isinstance(a, ast.Starred) for a in args):
            self._err(fn, node, 'star arguments')
        if chain and chain.startswith('math.'):
            m = chain[5:]
            if node.keywords:
                self._err(fn, node, 'keyword arguments to math.%s' % m)
            if m in MATH_UNARY and len(args) == 1:
                return '(Transc.%s %s)' % (MATH_UNARY[m], E(args[0]))
            if m == 'pow' and len(args) == 2:
                return '(Transc.pow %s %s)' % (E(args[0]), E(args[1]))
            if m == 'atan2' and len(args) == 2:
                return '(Transc.atan2 %s %s)' % (E(args[0]), E(args[1]))
            if m == 'fabs' and len(args) == 1:
                return '(Transc.fabs %s)' % E(args[0])
            if m == 'radians' and len(args) == 1:
                return '(%s * (Transc.pi / 180.0))' % E(args[0])
            if m == 'degrees' and len(args) == 1:
                return '(%s * (180.0 / Transc.pi))' % E(args[0])
            self._err(fn, node, 'unsupported math function %s/%d' % (m, len(args)))
        if chain == 'abs' and len(args) == 1 and not node.keywords:
            return '(Transc.fabs %s)' % E(args[0])
        if chain in ('min', 'max') and len(args) == 2 and not node.keywords:
            a, b = E(args[0]), E(args[1])
            # CPython: min(a, b) keeps a unless b < a; max(a, b) keeps a unless b > a
            return ('(if %s < %s then %s else %s)' % ((b, a, b, a) if chain == 'min' else (a, b, b, a)))
        if chain in self.funcs:
            info = self.funcs[chain]
            vals = {}
            if len(args) > len(info.params):
                self._err(fn, node, 'too many arguments for %s' % chain)
            for p, a in zip(info.params, args):
                vals[p] = E(a)
            for kw in node.keywords:
                if kw.arg is None or kw.arg not in info.params or kw.arg in vals:
                    self._err(fn, node, 'bad keyword argument for %s' % chain)
                vals[kw.arg] = E(kw.value)
            out = []
            for p in info.params:
                if p in vals:
                    out.append(vals[p])
                elif p in info.defaults:
                    out.append(info.defaults[p])
                else:
                    self._err(fn, node, 'missing argument %s of %s' % (p, chain))
            return '(%s %s)' % (info.lean_name, ' '.join(out))
        self._err(fn, node, 'call of %s is outside the supported subset' % (chain or type(f).__name__))

    def test_expr(self, node, fn, bound, used):
        """Lean text of a condition (a decidable Prop)."""
        T = lambda n: self.test_expr(n, fn, bound, used)
        E = lambda n: self.expr(n, fn, bound, used)
        if isinstance(node, ast.BoolOp):
            op = ' ∧ ' if isinstance(node.op, ast.And) else ' ∨ '
            return '(' + op.join(T(v) for v in node.values) + ')'
        if isinstance(node, ast.UnaryOp) and isinstance(node.op, ast.Not):
            return '(¬ %s)' % T(node.operand)
        if isinstance(node, ast.Compare):
            parts = []
            left = node.left
            for op, right in zip(node.ops, node.comparators):
                a, b = E(left), E(right)
                if isinstance(op, ast.Lt):
                    parts.append('%s < %s' % (a, b))
                elif isinstance(op, ast.LtE):
                    parts.append('%s ≤ %s' % (a, b))
                elif isinstance(op, ast.Gt):
                    parts.append('%s < %s' % (b, a))          # a > b  is  b < a  (also for NaN)
                elif isinstance(op, ast.GtE):
                    parts.append('%s ≤ %s' % (b, a))
                else:
                    self._err(fn, node, 'comparison %s is not supported (no DecidableEq in the interface)'
                              % type(op).__name__)
                left = right
            return parts[0] if len(parts) == 1 else '(' + ' ∧ '.join(parts) + ')'
        self._err(fn, node, 'unsupported condition %s' % type(node).__name__)

    # ---- statements

    def stmts(self, body, fn, bound, used, tail, ind):
        """Lean expression for a statement list.  `tail`: Lean text returned when the list falls off its end
        (None = falling off the end is an error: every path must return)."""
        pad = '  ' * ind
        if not body:
            if tail is None:
                raise ExtractError('%s %s: a path does not end in `return`' % (self.rel_path, fn))
            return pad + tail(bound, used)
        s, rest = body[0], body[1:]
        if isinstance(s, ast.Expr) and isinstance(s.value, ast.Constant) and isinstance(s.value.value, str):
            return self.stmts(rest, fn, bound, used, tail, ind)            # docstring
        if isinstance(s, ast.Pass):
            return self.stmts(rest, fn, bound, used, tail, ind)
        if isinstance(s, ast.Return):
            if s.value is None:
                self._err(fn, s, 'bare return')
            return pad + self.expr(s.value, fn, bound, used)
        if isinstance(s, ast.Assign):
            if len(s.targets) != 1 or not isinstance(s.targets[0], ast.Name):
                self._err(fn, s, 'only `name = expr` assignments are supported')
            rhs = self.expr(s.value, fn, bound, used)
            name = s.targets[0].id
            return '%slet %s := %s\n%s' % (pad, lean_ident(name), rhs,
                                          self.stmts(rest, fn, bound | {name}, used, tail, ind))
        if isinstance(s, ast.If):
            cond = self.test_expr(s.test, fn, bound, used)
            # the continuation is copied into both branches
            a = self.stmts(list(s.body) + rest, fn, set(bound), used, tail, ind + 1)
            b = self.stmts(list(s.orelse) + rest, fn, set(bound), used, tail, ind + 1)
            return '%sif %s then\n%s\n%selse\n%s' % (pad, cond, a, pad, b)
        self._err(fn, s, 'statement %s is outside the supported subset' % type(s).__name__)

    # ---- definitions

    def _ret_type(self, nodes):
        n = None
        for r in nodes:
            for x in ast.walk(r):
                if isinstance(x, ast.Return) and x.value is not None:
                    k = len(x.value.elts) if isinstance(x.value, ast.Tuple) else 1
                    if n is not None and n != k:
                        raise ExtractError('%s: return arity differs between paths' % self.rel_path)
                    n = k
        return n or 1

    @staticmethod
    def _type(k):
        return ' × '.join(['α'] * k)

    def _add(self, lean_name, params, ret, body, doc):
        sig = ' '.join(lean_ident(p) for p in params)
        text = '/-- %s -/\ndef %s%s : %s :=\n%s\n' % (doc, lean_name, (' (%s : α)' % sig) if params else '',
                                                    ret, body)
        self.defs.append((lean_name, text))

    def function(self, pyname, cls=None, lean_name=None, extra_params=()):
        """Translate a whole function (every path must return).  `extra_params`: parameters standing for
        mapped attributes (see attr_params), placed before the Python parameters."""
        node = self.find(pyname, cls)
        fn = (cls + '.' if cls else '') + pyname
        params, defaults = self.signature(node, fn)
        lean_name = lean_name or lean_ident(pyname)
        allp = list(extra_params) + params
        body = self.stmts(list(node.body), fn, set(allp), {}, None, 1)
        self._add(lean_name, allp, self._type(self._ret_type([node])), body,
                  '`%s` (%s:%d)' % (fn, self.rel_path, node.lineno))
        if not cls:
            self.funcs[pyname] = FuncInfo(pyname, lean_name, params, defaults)
        self.report.append(fn)
        return lean_name

    def loop(self, pyname, index=0, cls=None):
        """The `index`-th `while`/`for` statement of a function (document order)."""
        node = self.find(pyname, cls)
        loops = [n for n in ast.walk(node) if isinstance(n, (ast.While, ast.For))]
        loops.sort(key=lambda n: (n.lineno, n.col_offset))
        if index >= len(loops):
            raise ExtractError('%s %s: loop #%d not found' % (self.rel_path, pyname, index))
        return loops[index]

    def block(self, lean_name, fn, stmts, params, outputs):
        """A run of straight-line statements as a function of its free variables `params` (every name read
        before it is assigned must be listed) returning the final values of `outputs`."""
        def tail(bound, used):
            for o in outputs:
                if o not in bound:
                    raise ExtractError('%s %s: output %s is not defined by the block' % (self.rel_path, fn, o))
            outs = [lean_ident(o) for o in outputs]
            return outs[0] if len(outs) == 1 else '(%s)' % ', '.join(outs)
        for s in stmts:
            for x in ast.walk(s):
                if isinstance(x, (ast.Return, ast.Break, ast.Continue)):
                    self._err(fn, x, 'a block must not contain return/break/continue')
        used = {}
        body = self.stmts(list(stmts), fn, set(params), used, tail, 1)
        unused = [p for p in params if p not in used and p not in outputs]
        if unused:
            raise ExtractError('%s %s: block parameters %s are no longer read by the code' % (self.rel_path, fn, unused))
        self._add(lean_name, params, self._type(len(outputs)), body,
                  'lines %d-%d of `%s` as a function of the variables they read'
                  % (stmts[0].lineno, getattr(stmts[-1], 'end_lineno', stmts[-1].lineno), fn))
        self.report.append('%s[%s]' % (fn, lean_name))
        return lean_name

    def test(self, lean_name, fn, cond, params):
        """A condition (loop test, break test) as a `Prop`-valued definition."""
        used = {}
        body = '  ' + self.test_expr(cond, fn, set(params), used)
        unused = [p for p in params if p not in used]
        if unused:
            raise ExtractError('%s %s: test parameters %s are no longer read' % (self.rel_path, fn, unused))
        self._add(lean_name, params, 'Prop', body, 'the condition at line %d of `%s`' % (cond.lineno, fn))
        self.report.append('%s[%s]' % (fn, lean_name))
        return lean_name

    def expression(self, lean_name, fn, node, params):
        """One expression of the source (e.g. the value of a `return` inside a construct that is not
        translated) as a definition over the variables it reads."""
        used = {}
        body = '  ' + self.expr(node, fn, set(params), used)
        unused = [p for p in params if p not in used]
        if unused:
            raise ExtractError('%s %s: expression parameters %s are no longer read' % (self.rel_path, fn, unused))
        k = len(node.elts) if isinstance(node, ast.Tuple) else 1
        self._add(lean_name, params, self._type(k), body, 'the expression at line %d of `%s`' % (node.lineno, fn))
        self.report.append('%s[%s]' % (fn, lean_name))
        return lean_name

    def nat_const(self, lean_name, fn, node, what):
        """An integer literal of the source as a `Nat` constant (iteration limits)."""
        if not (isinstance(node, ast.Constant) and isinstance(node.value, int) and not isinstance(node.value, bool)
                and node.value >= 0):
            self._err(fn, node, '%s is no longer a natural-number literal' % what)
        self.defs.append((lean_name, '/-- %s of `%s` (line %d) -/\ndef %s : Nat := %d\n'
                          % (what, fn, node.lineno, lean_name, node.value)))
        self.report.append('%s[%s]' % (fn, lean_name))
        return lean_name

    # ---- output

    def render(self, namespace, extractor, imports=('Ladybug.Transc',)):
        out = [HEADER % (extractor, self.rel_path)]
        out += ['import %s' % i for i in imports]
        out += ['', 'namespace %s' % namespace, '', 'section', VARIABLES]
        out += [t for _, t in self.defs]
        out += ['end', '', 'end %s' % namespace, '']
        return '\n'.join(out)


def emit_file(gen_name, namespace, extractor, translators, imports=('Ladybug.Transc',)):
    """Write Gen/<gen_name>.lean from one or more translators (same namespace)."""
    if len(translators) == 1:
        text = translators[0].render(namespace, extractor, imports)
    else:
        head = ['-- GENERATED by tools/extract/%s from %s on every check run. Do not edit by hand.'
                % (extractor, ', '.join(t.rel_path for t in translators)),
                '-- (Regenerated from /repo; the file is rewritten only when its content changes.)']
        head += ['import %s' % i for i in imports]
        head += ['', 'namespace %s' % namespace, '', 'section', VARIABLES]
        for t in translators:
            head += ['-- from %s' % t.rel_path] + [d for _, d in t.defs]
        head += ['end', '', 'end %s' % namespace, '']
        text = '\n'.join(head)
    return write_if_changed(gen_name, text)
