"""Gen/SkyFormulas.lean: the formulas of ladybug/skymodel.py and the per-timestep irradiance formulas of
wea.py / designday.py translated statement by statement (C10), with tools/extract/pyexpr2lean.py.

Whole functions (straight-line code): zhang_huang_solar, clearness_index, get_extra_radiation,
calc_horizontal_infrared, calc_sky_temperature, _disc_kn.
Functions with loops / try / `None` / string dispatch / list indexing are translated PIECEWISE (branch tests,
branch bodies, per-step expressions): ashrae_clear_sky, ashrae_revised_clear_sky, zhang_huang_solar_split,
clearness_index_zenith_independent, get_absolute_airmass, every branch of get_relative_airmass, disc, dirint,
_dirint_bins, estimate_illuminance_from_irradiance, Wea.global_horizontal_irradiance,
Wea.direct_horizontal_irradiance, Wea.directional_irradiance (incl. its pol2cart),
ASHRAEClearSky/ASHRAETau.radiation_values.  Proofs/C10Gen.lean proves `C10_gen_eq_*`: the hand-written model
(Model/Sky.lean) is the composition of these generated definitions.

Hand-modelled glue (correspondence only): loops over lists, `try/except OverflowError`, `None` handling,
`model.lower()` dispatch, `dhi == 0` / `w == -1` / `dktp == -1` tests, table look-ups by bin/category,
raised errors, ladybug_geometry's Vector3D.angle.

Two small extensions of the generic translator live here (subclass, pyexpr2lean.py is not edited):
  * a subscript expression such as `MONTHLY_A[month - 1]` or `kt_primes[i]` can be mapped to a parameter;
  * `a, b = x, y` with a tuple on both sides is read as the assignments `a = x; b = y` (rejected when a
    target occurs on the right-hand side, so parallel = sequential).
"""
import ast
import re

from .common import ExtractError
from .pyexpr2lean import Translator, emit_file, lean_ident

SKY = 'ladybug/skymodel.py'
WEA = 'ladybug/wea.py'
DD = 'ladybug/designday.py'


def _norm(text):
    return re.sub(r'\s+', '', text or '')


class SkyTranslator(Translator):
    def __init__(self, rel_path, attr_params=None):
        Translator.__init__(self, rel_path, attr_params)
        self.sub_params = {}            # normalised source text of a subscript -> parameter name

    def _add(self, lean_name, params, ret, body, doc):
        Translator._add(self, lean_name, params, ret, body, doc)
        if ret == 'Prop':
            # branch tests are reducible so that `if <test> then .. else ..` finds the Decidable instance of
            # the comparison it abbreviates (the one the hand-written model's `if` uses)
            name, text = self.defs[-1]
            self.defs[-1] = (name, text.replace('\ndef ', '\n@[reducible] def ', 1))

    def subs(self, **kw):
        """Set the subscript -> parameter mapping (keys given as source text)."""
        self.sub_params = {_norm(k): v for k, v in kw.items()}

    def set_subs(self, mapping):
        self.sub_params = {_norm(k): v for k, v in mapping.items()}

    def expr(self, node, fn, bound, used):
        if isinstance(node, ast.Subscript):
            seg = _norm(ast.get_source_segment(self.src, node))
            if seg in self.sub_params:
                p = self.sub_params[seg]
                if p not in bound:
                    self._err(fn, node, 'subscript %s maps to %s which is not a parameter here' % (seg, p))
                used[p] = True
                return lean_ident(p)
            self._err(fn, node, 'unsupported subscript %s' % seg)
        return Translator.expr(self, node, fn, bound, used)

    def stmts(self, body, fn, bound, used, tail, ind):
        out = []
        for s in body:
            if isinstance(s, ast.Assign) and len(s.targets) == 1 and isinstance(s.targets[0], ast.Tuple) \
                    and isinstance(s.value, ast.Tuple):
                tg, vs = s.targets[0].elts, s.value.elts
                if len(tg) != len(vs) or not all(isinstance(t, ast.Name) for t in tg):
                    self._err(fn, s, 'unsupported tuple assignment')
                names = {t.id for t in tg}
                if len(names) != len(tg) or any(isinstance(x, ast.Name) and x.id in names
                                                for v in vs for x in ast.walk(v)):
                    self._err(fn, s, 'tuple assignment whose targets occur on the right-hand side')
                for t, v in zip(tg, vs):
                    a = ast.Assign(targets=[t], value=v)
                    ast.copy_location(a, s)
                    out.append(a)
            else:
                out.append(s)
        return Translator.stmts(self, out, fn, bound, used, tail, ind)

    def body_def(self, lean_name, fn, stmts, params):
        """A statement list every path of which returns, as a function of the variables it reads."""
        used = {}
        body = self.stmts(list(stmts), fn, set(params), used, None, 1)
        unused = [p for p in params if p not in used]
        if unused:
            raise ExtractError('%s %s: parameters %s of %s are no longer read' % (self.rel_path, fn, unused, lean_name))
        self._add(lean_name, params, self._type(self._ret_type(stmts)), body,
                  'lines %d-%d of `%s` as a function of the variables they read'
                  % (stmts[0].lineno, getattr(stmts[-1], 'end_lineno', stmts[-1].lineno), fn))
        self.report.append('%s[%s]' % (fn, lean_name))
        return lean_name

    def call_expr(self, lean_name, fn, node, params, arity):
        """A call of a translated function returning an `arity`-tuple, as a definition over its arguments."""
        used = {}
        body = '  ' + self.expr(node, fn, set(params), used)
        unused = [p for p in params if p not in used]
        if unused:
            raise ExtractError('%s %s: parameters %s of %s are no longer read' % (self.rel_path, fn, unused, lean_name))
        self._add(lean_name, params, self._type(arity), body, 'the call at line %d of `%s`' % (node.lineno, fn))
        self.report.append('%s[%s]' % (fn, lean_name))
        return lean_name

    def block_ret(self, lean_name, fn, stmts, params, rets):
        """Straight-line statements followed by the value(s) `rets` (expression nodes of the source, e.g.
        the arguments of the `append` calls that follow)."""
        r = ast.Return(value=rets[0] if len(rets) == 1 else ast.Tuple(elts=list(rets), ctx=ast.Load()))
        ast.copy_location(r, rets[0])
        if len(rets) > 1:
            ast.copy_location(r.value, rets[0])
        return self.body_def(lean_name, fn, list(stmts) + [r], params)


# ---------------------------------------------------------------------------------------------
# small ast finders (raise ExtractError when the source pattern is not there)


def _need(cond, what):
    if not cond:
        raise ExtractError('source pattern not recognised: %s' % what)


def _ordered(node, kinds):
    xs = [n for n in ast.walk(node) if isinstance(n, kinds)]
    xs.sort(key=lambda n: (n.lineno, n.col_offset))
    return xs


def _assigns(node, name):
    """Assignments `name = ...` below node in source order."""
    return [n for n in _ordered(node, ast.Assign)
            if len(n.targets) == 1 and isinstance(n.targets[0], ast.Name) and n.targets[0].id == name]


def _assign(node, name, k=0):
    xs = _assigns(node, name)
    _need(len(xs) > k, 'assignment #%d to %s' % (k, name))
    return xs[k]


def _appends(node, lst):
    """Arguments of `lst.append(arg)` calls below node in source order."""
    out = []
    for c in _ordered(node, ast.Call):
        if isinstance(c.func, ast.Attribute) and c.func.attr == 'append' and isinstance(c.func.value, ast.Name) \
                and c.func.value.id == lst and len(c.args) == 1:
            out.append(c.args[0])
    return out


def _first(node, kind, pred=lambda n: True, what='node'):
    for n in _ordered(node, kind):
        if pred(n):
            return n
    raise ExtractError('source pattern not recognised: %s' % what)


def _if_on(node, pred, what):
    return _first(node, ast.If, lambda n: pred(n.test), what)


def _names_in(node):
    return {x.id for x in ast.walk(node) if isinstance(x, ast.Name)}


def _is_name_cmp(test, name):
    return isinstance(test, ast.Compare) and isinstance(test.left, ast.Name) and test.left.id == name


# ---------------------------------------------------------------------------------------------


def _skymodel(t):
    # whole functions first (callees before callers)
    t.function('get_extra_radiation')
    t.function('clearness_index')
    t.function('_disc_kn')
    t.function('zhang_huang_solar')
    t.function('calc_horizontal_infrared')
    t.function('calc_sky_temperature')

    # --- ashrae_clear_sky: for alt: if alt > 0: try: dir_norm, diff_horiz, 2 appends
    fn = 'ashrae_clear_sky'
    f = t.find(fn)
    day = _if_on(f, lambda c: _is_name_cmp(c, 'alt'), fn + ': `if alt > 0`')
    t.test('clear_sky_is_day', fn, day.test, ['alt'])
    tr = _first(day, ast.Try, what=fn + ': try block')
    t.set_subs({'MONTHLY_A[month - 1]': 'a', 'MONTHLY_B[month - 1]': 'b'})
    a1, a2 = _assign(tr, 'dir_norm'), _assign(tr, 'diff_horiz')
    r1, r2 = _appends(tr, 'dir_norm_rad'), _appends(tr, 'dif_horiz_rad')
    _need(r1 and r2, fn + ': appends in the try body')
    t.block_ret('clear_sky_day', fn, [a1, a2], ['alt', 'a', 'b', 'sky_clearness'], [r1[0], r2[0]])
    t.set_subs({})

    # --- ashrae_revised_clear_sky
    fn = 'ashrae_revised_clear_sky'
    f = t.find(fn)
    sel = _if_on(f, lambda c: isinstance(c, ast.Name) and c.id == 'use_2017_model', fn + ': `if use_2017_model`')
    for tag, body in (('2017', sel.body), ('2009', sel.orelse)):
        holder = ast.Module(body=list(body), type_ignores=[])
        t.expression('revised_ab_' + tag, fn, _assign(holder, 'ab').value, ['tb', 'td'])
        t.expression('revised_ad_' + tag, fn, _assign(holder, 'ad').value, ['tb', 'td'])
    day = _if_on(f, lambda c: _is_name_cmp(c, 'alt'), fn + ': `if alt > 0`')
    t.test('revised_is_day', fn, day.test, ['alt'])
    holder = ast.Module(body=list(day.body), type_ignores=[])
    r1, r2 = _appends(holder, 'dir_norm_rad'), _appends(holder, 'dif_horiz_rad')
    _need(r1 and r2, fn + ': appends of the day branch')
    t.expression('revised_dir', fn, r1[0], ['tb', 'air_mass', 'ab'])
    t.expression('revised_dif', fn, r2[0], ['td', 'air_mass', 'ad'])

    # --- zhang_huang_solar_split: dhi of both branches
    fn = 'zhang_huang_solar_split'
    f = t.find(fn)
    t.set_subs({'glob_ir[i]': 'ghi', 'dir_norm_rad[i]': 'dni', 'altitudes[i]': 'alt'})
    lc = _assign(f, 'dif_horiz_rad', 0).value
    _need(isinstance(lc, ast.ListComp), fn + ': dif_horiz_rad list comprehension')
    t.expression('zh_split_dhi_dirint', fn, lc.elt, ['ghi', 'dni', 'alt'])
    t.expression('zh_split_dhi_disc', fn, _assign(f, 'dhi').value, ['ghi', 'dni', 'alt'])
    t.set_subs({})

    # --- clearness_index_zenith_independent: body of `if airmass is not None`
    fn = 'clearness_index_zenith_independent'
    f = t.find(fn)
    br = _if_on(f, lambda c: isinstance(c, ast.Compare) and isinstance(c.ops[0], ast.IsNot), fn + ': None test')
    t.body_def('kt_prime_value', fn, br.body, ['clearness_index', 'airmass', 'max_clearness_index'])

    # --- get_absolute_airmass
    fn = 'get_absolute_airmass'
    f = t.find(fn)
    br = _if_on(f, lambda c: isinstance(c, ast.Compare) and isinstance(c.ops[0], ast.IsNot), fn + ': None test')
    _need(len(br.body) == 1 and isinstance(br.body[0], ast.Return), fn + ': return in the branch')
    t.expression('absolute_airmass_value', fn, br.body[0].value, ['airmass_relative', 'pressure'])

    # --- get_relative_airmass: None test, alt_rad, one definition per model branch
    fn = 'get_relative_airmass'
    f = t.find(fn)
    top = _if_on(f, lambda c: _is_name_cmp(c, 'altitude'), fn + ': `if altitude < 0`')
    t.test('am_is_none', fn, top.test, ['altitude'])
    t.expression('am_alt_rad', fn, _assign(f, 'alt_rad').value, ['altitude'])
    chain = _if_on(f, lambda c: isinstance(c, ast.Compare) and isinstance(c.left, ast.Constant)
                   and isinstance(c.left.value, str), fn + ': model chain')
    seen = []
    node = chain
    while True:
        c = node.test
        _need(isinstance(c, ast.Compare) and isinstance(c.left, ast.Constant) and isinstance(c.left.value, str)
              and len(c.ops) == 1 and isinstance(c.ops[0], ast.Eq) and isinstance(c.comparators[0], ast.Name)
              and c.comparators[0].id == 'model', fn + ': test of the model chain')
        name = c.left.value
        _need(re.match(r'^[a-z0-9]+$', name), fn + ': model name ' + name)
        _need(all(isinstance(s, ast.Assign) for s in node.body) and node.body, fn + ': branch ' + name)
        last = node.body[-1]
        _need(isinstance(last.targets[0], ast.Name) and last.targets[0].id == 'am', fn + ': branch %s sets am' % name)
        free = set()
        defined = set()
        for s in node.body:
            free |= (_names_in(s.value) - defined - {'math'})
            defined.add(s.targets[0].id)
        params = [p for p in ('alt_rad', 'altitude') if p in free]
        _need(free <= {'alt_rad', 'altitude'}, fn + ': branch %s reads %s' % (name, sorted(free)))
        t.block('am_' + name, fn, node.body, params, ['am'])
        seen.append(name)
        if len(node.orelse) == 1 and isinstance(node.orelse[0], ast.If):
            node = node.orelse[0]
        else:
            _need(len(node.orelse) == 1 and isinstance(node.orelse[0], ast.Raise), fn + ': chain ends in raise')
            break

    # --- disc
    fn = 'disc'
    f = t.find(fn)
    day = _if_on(f, lambda c: isinstance(c, ast.BoolOp), fn + ': day test')
    t.test('disc_is_day', fn, day.test, ['altitude', 'min_altitude', 'ghi'])
    holder = ast.Module(body=list(day.body), type_ignores=[])
    t.block('disc_i0_kt', fn, [_assign(holder, 'I0'), _assign(holder, 'kt')],
            ['ghi', 'altitude', 'doy', 'min_sin_altitude'], ['I0', 'kt'])
    kn = _first(holder, ast.Assign, lambda n: isinstance(n.targets[0], ast.Tuple) and isinstance(n.value, ast.Call),
                fn + ': `Kn, am = _disc_kn(...)`')
    _need(len(kn.targets[0].elts) == 2, fn + ': `Kn, am = ...` has two targets')
    t.call_expr('disc_kn_call', fn, kn.value, ['kt', 'am', 'max_airmass'], 2)
    t.block('disc_dni', fn, _assigns(holder, 'dni'), ['Kn', 'I0'], ['dni'])

    # --- dirint
    fn = 'dirint'
    f = t.find(fn)
    t.set_subs({'kt_primes[i]': 'k', 'kt_primes[i - 1]': 'prev'})
    d = _appends(f, 'delta_kt_prime')
    _need(d, fn + ': delta_kt_prime.append')
    t.expression('dirint_delta', fn, d[0], ['k', 'kt_prime_1', 'prev'])
    t.set_subs({})
    wl = _assign(f, 'w', 0).value
    _need(isinstance(wl, ast.ListComp), fn + ': w list comprehension')
    t.expression('dirint_w', fn, wl.elt, ['td'])
    dl = _assign(f, 'dni', 0).value
    _need(isinstance(dl, ast.ListComp), fn + ': dni list comprehension')
    t.expression('dirint_dni', fn, dl.elt, ['disc_d', 'coef'])

    # --- _dirint_bins: one test per bin (the two marker tests `== -1` are outside the subset)
    fn = '_dirint_bins'
    f = t.find(fn)
    bins = []
    for lst, var, p in (('ktp_bin', 'ktp[i]', 'k'), ('alt_bin', 'alt[i]', 'a'), ('w_bin', 'w[i]', 'w'),
                        ('dktp_bin', 'dktp[i]', 'd')):
        t.set_subs({var: p})
        for a in _assigns(f, lst):
            if not (isinstance(a.value, ast.ListComp) and isinstance(a.value.elt, ast.IfExp)):
                continue
            e = a.value.elt
            _need(isinstance(e.body, ast.Constant) and isinstance(e.body.value, int), fn + ': bin number')
            if any(isinstance(o, (ast.Eq, ast.NotEq)) for c in ast.walk(e.test) if isinstance(c, ast.Compare)
                   for o in c.ops):
                continue
            nm = '%s_%d' % (lst, e.body.value)
            t.test(nm, fn, e.test, [p])
            bins.append(nm)
    t.set_subs({})

    # --- estimate_illuminance_from_irradiance
    fn = 'estimate_illuminance_from_irradiance'
    f = t.find(fn)
    night = _if_on(f, lambda c: _is_name_cmp(c, 'altitude'), fn + ': night test')
    t.test('illum_is_night', fn, night.test, ['altitude'])
    t.expression('illum_zenith', fn, _assign(f, 'zenith').value, ['altitude'])
    t.block('illum_eps_delta_w', fn, [_assign(f, 'kai'), _assign(f, 'eps'), _assign(f, 'delta'), _assign(f, 'w')],
            ['zenith', 'dhi', 'dni', 'rel_airmass', 'dew_point'], ['eps', 'delta', 'w'])
    cat = _if_on(f, lambda c: isinstance(c, ast.BoolOp) and 'eps' in _names_in(c), fn + ': category chain')
    node, k = cat, 0
    while True:
        _need(len(node.body) == 1 and isinstance(node.body[0], ast.Assign)
              and isinstance(node.body[0].value, ast.Constant) and node.body[0].value.value == k,
              fn + ': e_category = %d' % k)
        t.test('illum_cat_%d' % k, fn, node.test, ['eps'])
        k += 1
        if len(node.orelse) == 1 and isinstance(node.orelse[0], ast.If):
            node = node.orelse[0]
        else:
            break
    _need(k == 8, fn + ': 8 sky-clearness categories')
    t.expression('illum_gh', fn, _assign(f, 'gh_ill').value, ['ghi', 'a', 'b', 'c', 'd', 'w', 'zenith', 'delta'])
    t.expression('illum_dn', fn, _assign(f, 'dn_ill').value, ['dni', 'a', 'b', 'c', 'd', 'w', 'zenith', 'delta'])
    t.expression('illum_dh', fn, _assign(f, 'dh_ill').value, ['dhi', 'a', 'b', 'c', 'd', 'w', 'zenith', 'delta'])
    t.expression('illum_z', fn, _assign(f, 'z_lum').value, ['dhi', 'a', 'b', 'c', 'd', 'zenith', 'delta'])
    return {'airmass_models': seen, 'bins': bins}


def _wea(t):
    cls = 'Wea'
    fn = 'global_horizontal_irradiance'
    a = _appends(t.find(fn, cls), 'glob_horiz')
    _need(a, fn + ': glob_horiz.append')
    t.expression('wea_global_horizontal', cls + '.' + fn, a[0], ['dhr', 'dnr', 'sun_altitude'])
    fn = 'direct_horizontal_irradiance'
    a = _appends(t.find(fn, cls), 'direct_horiz')
    _need(a, fn + ': direct_horiz.append')
    t.expression('wea_direct_horizontal', cls + '.' + fn, a[0], ['dnr', 'sun_altitude'])

    fn = 'directional_irradiance'
    f = t.find(fn, cls)
    full = cls + '.' + fn
    p2c = _first(f, ast.FunctionDef, lambda n: n.name == 'pol2cart', full + ': nested pol2cart')
    t.block('pol2cart', full, [_assign(p2c, v) for v in ('mult', 'x', 'y', 'z')], ['phi', 'theta'], ['x', 'y', 'z'])
    loop = _first(f, ast.For, what=full + ': loop over the time steps')
    holder = ast.Module(body=list(loop.body), type_ignores=[])
    d0 = _assign(holder, 'srf_dir', 0)
    dif = _if_on(holder, lambda c: 'srf_dir' not in _names_in(c) and 'vec_angle' in _names_in(c)
                 and 'sun' in _names_in(c), full + ': direct test')
    t.block('dir_srf_dir', full, [d0, dif], ['sun_altitude', 'vec_angle', 'dnr'], ['srf_dir'])
    iso = _if_on(holder, lambda c: isinstance(c, ast.Name) and c.id == 'isotropic', full + ': `if isotropic`')
    hi = ast.Module(body=list(iso.body), type_ignores=[])
    ha = ast.Module(body=list(iso.orelse), type_ignores=[])
    t.expression('dir_srf_dif_iso', full, _assign(hi, 'srf_dif').value, ['dhr', 'altitude'])
    t.block('dir_srf_dif_aniso', full, [_assign(ha, 'y'), _assign(ha, 'srf_dif')], ['vec_angle', 'dhr', 'altitude'],
            ['srf_dif'])
    t.block('dir_srf_ref', full, [_assign(holder, 'e_glob'), _assign(holder, 'srf_ref')],
            ['dhr', 'dnr', 'sun_altitude', 'ground_reflectance', 'altitude'], ['srf_ref'])
    tot = _appends(holder, 'total_irr')
    _need(tot, full + ': total_irr.append')
    t.expression('dir_total', full, tot[0], ['srf_dir', 'srf_dif', 'srf_ref'])


def _designday(t):
    for cls, name in (('ASHRAEClearSky', 'designday_glob_clear'), ('ASHRAETau', 'designday_glob_tau')):
        f = t.find('radiation_values', cls)
        lc = _assign(f, 'glob_horiz').value
        _need(isinstance(lc, ast.ListComp), cls + '.radiation_values: glob_horiz list comprehension')
        t.expression(name, cls + '.radiation_values', lc.elt, ['dhr', 'dnr', 'alt'])


HAND_MODELLED = [
    'ashrae_clear_sky: loop, try/except OverflowError, MONTHLY_A/B look-up (tables: Gen/SkyTables)',
    'ashrae_revised_clear_sky: loop, call of get_relative_airmass (None)',
    'zhang_huang_solar_split: loops, list plumbing, dew points (C09)',
    'clearness_index_zenith_independent / get_absolute_airmass: `is not None` dispatch',
    'get_relative_airmass: model.lower() string dispatch, None for negative altitude, ValueError',
    'disc: None air mass / pressure, return of (0, 0, None)',
    'dirint / _dirint_bins: loops, kt_primes[i+1] IndexError wrap, `== -1` markers, matrix look-up (Gen/SkyTables)',
    'estimate_illuminance_from_irradiance: `dhi == 0`, ValueError, table look-up by category (Gen/SkyTables)',
    'Wea.*: loops over time steps, Sunpath (C05), Vector3D.angle (ladybug_geometry)',
]


def extract():
    sky = SkyTranslator(SKY)
    info = _skymodel(sky)
    wea = SkyTranslator(WEA, attr_params={'sun.altitude': 'sun_altitude'})
    _wea(wea)
    dd = SkyTranslator(DD)
    _designday(dd)
    changed = emit_file('SkyFormulas', 'Gen.Sky', 'sky_formulas.py', [sky, wea, dd])
    return {'translated': sky.report + wea.report + dd.report, 'airmass_models': info['airmass_models'],
            'bins': info['bins'], 'hand_modelled': HAND_MODELLED, 'changed': changed}


if __name__ == '__main__':
    import json
    print(json.dumps(extract(), indent=1))
