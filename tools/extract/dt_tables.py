"""Gen/DtTables.lean: month tables of dt.py (from_moy, from_doy) and MONTHNAMES."""
import ast
from .common import (parse_file, find_class, find_func, find_assign, find_assigns_deep, const_fold,
                     lean_nat_list, lean_str_list, write_if_changed, ExtractError, HEADER)


def _two_tables(func, var):
    vals = find_assigns_deep(func, var)
    if len(vals) != 2:
        raise ExtractError('%s: expected two assignments of %s (normal, leap), found %d'
                           % (func.name, var, len(vals)))
    # first one is under `if not leap_year`, second under `else`
    test = None
    for n in ast.walk(func):
        if isinstance(n, ast.If) and any(isinstance(a, ast.Assign) and any(
                isinstance(t, ast.Name) and t.id == var for t in a.targets) for a in n.body):
            test = n.test
            break
    if test is None or not (isinstance(test, ast.UnaryOp) and isinstance(test.op, ast.Not)
                            and isinstance(test.operand, ast.Name)
                            and test.operand.id == 'leap_year'):
        raise ExtractError('%s: table selection is no longer `if not leap_year`' % func.name)
    return const_fold(vals[0]), const_fold(vals[1])


def extract():
    tree, _ = parse_file('ladybug/dt.py')
    names = const_fold(find_assign(tree, 'MONTHNAMES'))
    dt_cls = find_class(tree, 'DateTime')
    date_cls = find_class(tree, 'Date')
    m_norm, m_leap = _two_tables(find_func(dt_cls, 'from_moy'), 'num_of_minutes_until_month')
    d_norm, d_leap = _two_tables(find_func(date_cls, 'from_doy'), 'days_until_month')
    text = (HEADER % ('dt_tables.py', 'ladybug/dt.py')) + '\n'.join([
        'namespace Gen.Dt',
        'def minutesUntilMonth : List Nat := ' + lean_nat_list(m_norm),
        'def minutesUntilMonthLeap : List Nat := ' + lean_nat_list(m_leap),
        'def daysUntilMonth : List Nat := ' + lean_nat_list(d_norm),
        'def daysUntilMonthLeap : List Nat := ' + lean_nat_list(d_leap),
        'def monthNames : List String := ' + lean_str_list(names),
        'end Gen.Dt', ''])
    write_if_changed('DtTables', text)
    return {'minutes': m_norm, 'minutes_leap': m_leap, 'days': d_norm, 'days_leap': d_leap,
            'names': names}


if __name__ == '__main__':
    print(extract())
