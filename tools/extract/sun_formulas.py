"""Gen/SunFormulas.lean: the straight-line parts of ladybug/sunpath.py translated piece by piece (C05).

Translated (each piece gets a theorem `C05_gen_eq_<piece> : Gen.Sun.<piece> … = Sun.<model> …` in
lean/Ladybug/Proofs/C05Gen.lean, for every numeric type of the generic interface at once):

  Sunpath._calculate_solar_geometry   `julian_day` (expression; the day count, the rounded day fraction and the time
                                      zone are parameters) and `solar_geometry` (everything from `julian_century`
                                      to `eq_of_time` as one block of the Julian day)
  Sunpath._calculate_solar_time       whole function (`self._longitude`, `self.time_zone` as parameters)
  Sunpath._calculate_sunrise_hour_angle  whole function (`self._latitude` as a parameter; the ValueError of acos is
                                      not part of the expression)
  Sunpath.calculate_sun_from_date_time   blocks: `sol_time_minutes`, `hour_angle`, `zenith_altitude`, `refraction`
                                      (the four-branch if), `apply_refraction` (the two augmented assignments),
                                      `az_init`, `azimuth_branches` (the if/else inside the try),
                                      `azimuth_zero_division`, `azimuth_value_error` (the two handler bodies)
  Sun.azimuth_from_y_axis, Sun.altitude_in_radians, Sun.azimuth_in_radians   whole functions
  Sun.is_during_day                   the returned comparison as a Prop (`is_during_day_test`)

Hand-modelled in Model/Sun.lean, tied by correspondence only (outside the translator's subset):
  _days_from_010119 (loops over years / months), `round((minute + hour * 60) / 1440.0, 2)` (decimal rounding of a
  double: tie table), `_calculate_hour_and_minute` (int()/round()), the setters (`==` on floats, `is None`),
  when the try raises (ZeroDivisionError of `/`, ValueError of math.acos: Python semantics), float `%`
  (`Sun.pyMod`, referenced by the generated code), `Sun.__init__` assertions, `Sun._calculate_sun_vector`
  (calls into ladybug_geometry, which is not part of /repo), the leap-year re-stamping of the datetime,
  daylight saving (C11).
The *shape* of the untranslated glue (which exception classes are caught, what the round() and day-count calls
look like, that the function returns `sol_dec, eq_of_time`) is pattern-checked here: a change raises ExtractError.

Extensions of the generic translator (subclass, pyexpr2lean.py is not edited): float `%` -> `Sun.pyMod`,
`x op= e` as `x = x op e`, `float(x)` -> `x`, Bool parameters in conditions, `self.PI` -> `Transc.pi`, named calls
standing for hand-modelled values (parameters), calls of translated methods through `self.`.
"""
import ast

from .common import ExtractError
from .pyexpr2lean import Translator, emit_file, lean_ident

SRC = 'ladybug/sunpath.py'


class SunTranslator(Translator):
    def __init__(self, rel_path, attr_params=None, attr_exprs=None, call_params=None, bool_params=(),
                 method_calls=None):
        Translator.__init__(self, rel_path, attr_params)
        self.attr_exprs = attr_exprs or {}          # attribute chain -> Lean text
        self.call_params = call_params or {}        # call (by exact source text) -> parameter standing for it
        self.bool_params = set(bool_params)
        self.method_calls = method_calls or {}      # 'self._m' -> (lean name, [extra leading parameters])

    def expr(self, node, fn, bound, used):
        E = lambda n: self.expr(n, fn, bound, used)
        if isinstance(node, ast.BinOp) and isinstance(node.op, ast.Mod):
            return '(_root_.Sun.pyMod %s %s)' % (E(node.left), E(node.right))
        if isinstance(node, ast.Attribute):
            chain = self.attr_chain(node)
            if chain in self.attr_exprs:
                return self.attr_exprs[chain]
        if isinstance(node, ast.Call):
            text = ast.unparse(node)
            if text in self.call_params:
                p = self.call_params[text]
                if p not in bound:
                    self._err(fn, node, 'call %s maps to %s which is not a parameter here' % (text, p))
                used[p] = True
                return lean_ident(p)
            f = node.func
            if isinstance(f, ast.Name) and f.id == 'float' and len(node.args) == 1 and not node.keywords:
                return E(node.args[0])
            chain = self.attr_chain(f) if isinstance(f, ast.Attribute) else None
            if chain in self.method_calls:
                lean_name, extra = self.method_calls[chain]
                if node.keywords:
                    self._err(fn, node, 'keyword arguments in a method call')
                for p in extra:
                    if p not in bound:
                        self._err(fn, node, '%s needs %s which is not a parameter here' % (chain, p))
                    used[p] = True
                return '(%s %s)' % (lean_name, ' '.join([lean_ident(p) for p in extra] + [E(a) for a in node.args]))
        return Translator.expr(self, node, fn, bound, used)

    def test_expr(self, node, fn, bound, used):
        if isinstance(node, ast.Name) and node.id in self.bool_params:
            if node.id not in bound:
                self._err(fn, node, 'name %s is not a parameter here' % node.id)
            used[node.id] = True
            return '(%s = true)' % lean_ident(node.id)
        return Translator.test_expr(self, node, fn, bound, used)

    def stmts(self, body, fn, bound, used, tail, ind):
        if body and isinstance(body[0], ast.AugAssign) and isinstance(body[0].target, ast.Name):
            s = body[0]
            load = ast.copy_location(ast.Name(id=s.target.id, ctx=ast.Load()), s)
            new = ast.copy_location(ast.Assign(
                targets=[ast.copy_location(ast.Name(id=s.target.id, ctx=ast.Store()), s)],
                value=ast.copy_location(ast.BinOp(left=load, op=s.op, right=s.value), s)), s)
            new.end_lineno = getattr(s, 'end_lineno', s.lineno)
            body = [new] + list(body[1:])
        return Translator.stmts(self, body, fn, bound, used, tail, ind)

    def _add(self, lean_name, params, ret, body, doc):
        sig = ''.join(' (%s : %s)' % (lean_ident(p), 'Bool' if p in self.bool_params else 'α') for p in params)
        self.defs.append((lean_name, '/-- %s -/\ndef %s%s : %s :=\n%s\n' % (doc, lean_name, sig, ret, body)))


def _need(cond, what):
    if not cond:
        raise ExtractError('%s: %s: source pattern not recognised' % (SRC, what))


def _body(node):
    b = list(node.body)
    if b and isinstance(b[0], ast.Expr) and isinstance(b[0].value, ast.Constant) and isinstance(b[0].value.value, str):
        b = b[1:]
    return b


def _assign_index(body, name, fn):
    for i, s in enumerate(body):
        if isinstance(s, ast.Assign) and len(s.targets) == 1 and isinstance(s.targets[0], ast.Name) \
                and s.targets[0].id == name:
            return i
    raise ExtractError('%s: %s: assignment to %s not found' % (SRC, fn, name))


def _handler_name(h):
    return h.type.id if isinstance(h.type, ast.Name) else None


def extract():
    t = SunTranslator(
        SRC,
        attr_params={'self._latitude': 'latitude', 'self._longitude': 'longitude', 'self.time_zone': 'time_zone',
                     'self._azimuth': 'azimuth', 'self._north_angle': 'north_angle', 'self._altitude': 'altitude',
                     'self.sun_vector.z': 'z'},
        attr_exprs={'self.PI': 'Transc.pi'},
        call_params={'self._days_from_010119(year, month, day)': 'days',
                     'round((minute + hour * 60) / 1440.0, 2)': 'frac'},
        bool_params=('is_solar_time',),
        method_calls={'self._calculate_solar_time': ('calculate_solar_time', ['longitude', 'time_zone'])})

    # --- _calculate_solar_time, _calculate_sunrise_hour_angle: whole functions
    t.function('_calculate_solar_time', cls='Sunpath', extra_params=['longitude', 'time_zone'])
    t.function('_calculate_sunrise_hour_angle', cls='Sunpath', extra_params=['latitude'])

    # --- _calculate_solar_geometry: julian_day expression + one block from the Julian day
    fn = 'Sunpath._calculate_solar_geometry'
    b = _body(t.find('_calculate_solar_geometry', 'Sunpath'))
    i = _assign_index(b, 'julian_day', fn)
    t.expression('julian_day', fn, b[i].value, ['days', 'frac', 'time_zone'])
    _need(isinstance(b[-1], ast.Return) and isinstance(b[-1].value, ast.Tuple)
          and [getattr(e, 'id', None) for e in b[-1].value.elts] == ['sol_dec', 'eq_of_time'],
          fn + ' returns sol_dec, eq_of_time')
    _need(all(isinstance(s, ast.Assign) for s in b[i + 1:-1]) and i + 1 < len(b) - 1, fn + ' series block')
    t.block('solar_geometry', fn, b[i + 1:-1], ['julian_day'], ['sol_dec', 'eq_of_time'])

    # --- calculate_sun_from_date_time: blocks
    fn = 'Sunpath.calculate_sun_from_date_time'
    b = _body(t.find('calculate_sun_from_date_time', 'Sunpath'))
    i = _assign_index(b, 'sol_time', fn)
    t.block('sol_time_minutes', fn, [b[i]], ['longitude', 'time_zone', 'hour', 'eq_of_time', 'is_solar_time'],
            ['sol_time'])
    i = _assign_index(b, 'hour_angle', fn)
    t.block('hour_angle', fn, [b[i]], ['sol_time'], ['hour_angle'])
    i = _assign_index(b, 'cos_zenith', fn)
    _need(_assign_index(b, 'zenith', fn) == i + 1 and _assign_index(b, 'altitude', fn) == i + 2,
          fn + ' cos_zenith / zenith / altitude')
    t.block('zenith_altitude', fn, b[i:i + 3], ['latitude', 'sol_dec', 'hour_angle'], ['zenith', 'altitude'])
    j = i + 3
    _need(isinstance(b[j], ast.If) and isinstance(b[j + 1], ast.AugAssign) and isinstance(b[j + 2], ast.AugAssign),
          fn + ' refraction if / two augmented assignments')
    t.block('refraction', fn, [b[j]], ['altitude'], ['atmos_refraction'])
    t.block('apply_refraction', fn, b[j + 1:j + 3], ['altitude', 'atmos_refraction'], ['altitude'])
    tr = b[j + 3]
    _need(isinstance(tr, ast.Try) and len(tr.body) == 2 and isinstance(tr.body[0], ast.Assign)
          and isinstance(tr.body[1], ast.If) and not tr.orelse and not tr.finalbody
          and [_handler_name(h) for h in tr.handlers] == ['ZeroDivisionError', 'ValueError']
          and all(len(h.body) == 1 and isinstance(h.body[0], ast.Assign) for h in tr.handlers),
          fn + ' try: az_init, if/else; except ZeroDivisionError; except ValueError')
    t.block('az_init', fn, [tr.body[0]], ['latitude', 'sol_dec', 'zenith'], ['az_init'])
    t.block('azimuth_branches', fn, [tr.body[1]], ['hour_angle', 'az_init'], ['azimuth'])
    t.block('azimuth_zero_division', fn, tr.handlers[0].body, [], ['azimuth'])
    t.block('azimuth_value_error', fn, tr.handlers[1].body, ['az_init'], ['azimuth'])

    # --- Sun properties
    t.function('azimuth_from_y_axis', cls='Sun', extra_params=['azimuth', 'north_angle'])
    t.function('altitude_in_radians', cls='Sun', extra_params=['altitude'])
    t.function('azimuth_in_radians', cls='Sun', extra_params=['azimuth'])
    fn = 'Sun.is_during_day'
    b = _body(t.find('is_during_day', 'Sun'))
    _need(len(b) == 1 and isinstance(b[0], ast.Return) and isinstance(b[0].value, ast.Compare), fn)
    t.test('is_during_day_test', fn, b[0].value, ['z'])

    changed = emit_file('SunFormulas', 'Gen.Sun', 'sun_formulas.py', [t],
                        imports=('Ladybug.Transc', 'Ladybug.Model.Sun'))
    return {'translated': t.report, 'changed': changed,
            'hand_modelled': ['_days_from_010119', 'round(day fraction, 2)', '_calculate_hour_and_minute',
                              'latitude/time_zone setters', 'exception conditions of the try',
                              'float % (Sun.pyMod)', 'Sun.__init__', 'Sun._calculate_sun_vector (ladybug_geometry)']}


if __name__ == '__main__':
    import json
    print(json.dumps(extract(), indent=1))
