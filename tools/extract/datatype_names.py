"""Gen/DataTypeNames.lean: class names of every standard data type of ladybug/datatype/*.py
(the keys of `_DataTypeEnumeration._TYPES`: all transitive subclasses of DataTypeBase except
GenericType).  Used by the C07 model of `DataTypeBase.from_dict`."""
import ast
import os
from .common import REPO, parse_file, lean_str_list, write_if_changed, ExtractError, HEADER


def extract():
    ddir = os.path.join(REPO, 'ladybug', 'datatype')
    try:
        files = sorted(f for f in os.listdir(ddir) if f.endswith('.py') and f != '__init__.py')
    except OSError as e:
        raise ExtractError('cannot list ladybug/datatype: %s' % e)
    bases = {}
    for f in files:
        tree, _ = parse_file('ladybug/datatype/' + f)
        for node in tree.body:
            if isinstance(node, ast.ClassDef):
                bs = []
                for b in node.bases:
                    if isinstance(b, ast.Name):
                        bs.append(b.id)
                    elif isinstance(b, ast.Attribute):
                        bs.append(b.attr)
                    else:
                        raise ExtractError('unsupported base class expression in %s' % node.name)
                bases[node.name] = bs
    if 'DataTypeBase' not in bases or 'GenericType' not in bases:
        raise ExtractError('DataTypeBase / GenericType not found in ladybug/datatype')

    def derives(c, seen=()):
        return any(b == 'DataTypeBase' or (b in bases and b not in seen and derives(b, seen + (c,)))
                   for b in bases.get(c, []))

    names = sorted(c for c in bases if c not in ('GenericType', 'DataTypeBase') and derives(c))
    if len(names) < 20:
        raise ExtractError('only %d data type classes found' % len(names))
    text = (HEADER % ('datatype_names.py', 'ladybug/datatype/*.py')) + '\n'.join([
        'namespace Gen.DataTypes',
        'def names : List String := ' + lean_str_list(names),
        'end Gen.DataTypes', ''])
    write_if_changed('DataTypeNames', text)
    return names


if __name__ == '__main__':
    print(len(extract()))
