"""Shared helpers of the translator (Python `ast` -> Lean source).  DESIGN.md 3.1.

The supported subset is deliberately tiny: numeric literals, + - * / ** with literal exponent,
unary minus, tuples/lists/dicts of those, names bound to module/class constants.  Anything else
raises ExtractError, which the check reports as "tie broken: translator".
"""
import ast
import os
from fractions import Fraction

REPO = os.environ.get('LADYBUG_REPO', '/repo')
HERE = os.path.dirname(os.path.abspath(__file__))
GEN_DIR = os.path.join(os.environ.get('VERIF_LEAN_DIR')
                       or os.path.normpath(os.path.join(HERE, '..', '..', 'lean')), 'Ladybug', 'Gen')


class ExtractError(Exception):
    pass


def parse_file(rel):
    path = os.path.join(REPO, rel)
    try:
        with open(path, encoding='utf-8') as f:
            src = f.read()
    except OSError as e:
        raise ExtractError('cannot read %s: %s' % (rel, e))
    try:
        return ast.parse(src, filename=path), src
    except SyntaxError as e:
        raise ExtractError('cannot parse %s: %s' % (rel, e))


def find_class(tree, name):
    for node in tree.body:
        if isinstance(node, ast.ClassDef) and node.name == name:
            return node
    raise ExtractError('class %s not found' % name)


def find_func(node, name):
    for n in node.body:
        if isinstance(n, (ast.FunctionDef,)) and n.name == name:
            return n
    raise ExtractError('function %s not found in %s' % (name, getattr(node, 'name', 'module')))


def find_assign(node, name):
    """Value node of the first `name = ...` assignment directly in node.body."""
    for n in node.body:
        if isinstance(n, ast.Assign):
            for t in n.targets:
                if isinstance(t, ast.Name) and t.id == name:
                    return n.value
    raise ExtractError('assignment %s not found in %s' % (name, getattr(node, 'name', 'module')))


def find_assigns_deep(node, name):
    """All value nodes of `name = ...` anywhere below node, in source order."""
    out = []
    for n in ast.walk(node):
        if isinstance(n, ast.Assign):
            for t in n.targets:
                if isinstance(t, ast.Name) and t.id == name:
                    out.append((n.lineno, n.value))
    out.sort(key=lambda p: p[0])
    return [v for _, v in out]


def const_fold(node, env=None):
    """Evaluate a constant numeric expression exactly (ints stay ints, floats become Fractions
    of their *decimal* spelling is not available from ast, so floats are converted via repr)."""
    env = env or {}
    if isinstance(node, ast.Constant):
        v = node.value
        if isinstance(v, bool):
            return v
        if isinstance(v, int):
            return v
        if isinstance(v, float):
            return Fraction(repr(v))
        if isinstance(v, str):
            return v
        if v is None:
            return None
        raise ExtractError('unsupported constant %r' % (v,))
    if isinstance(node, ast.Name):
        if node.id in env:
            return env[node.id]
        raise ExtractError('unbound name %s' % node.id)
    if isinstance(node, ast.UnaryOp) and isinstance(node.op, ast.USub):
        return -const_fold(node.operand, env)
    if isinstance(node, ast.UnaryOp) and isinstance(node.op, ast.UAdd):
        return const_fold(node.operand, env)
    if isinstance(node, ast.BinOp):
        a = const_fold(node.left, env)
        b = const_fold(node.right, env)
        if isinstance(node.op, ast.Add):
            return a + b
        if isinstance(node.op, ast.Sub):
            return a - b
        if isinstance(node.op, ast.Mult):
            return a * b
        if isinstance(node.op, ast.Div):
            if b == 0:
                raise ExtractError('division by zero in constant')
            return Fraction(a) / Fraction(b)
        if isinstance(node.op, ast.Pow):
            if not isinstance(b, int):
                raise ExtractError('non-integer exponent')
            return Fraction(a) ** b if b < 0 else a ** b
        raise ExtractError('unsupported operator %s' % type(node.op).__name__)
    if isinstance(node, (ast.Tuple, ast.List)):
        return [const_fold(e, env) for e in node.elts]
    if isinstance(node, ast.Dict):
        return {const_fold(k, env): const_fold(v, env) for k, v in zip(node.keys, node.values)}
    raise ExtractError('unsupported expression %s at line %s' % (
        type(node).__name__, getattr(node, 'lineno', '?')))


def lean_nat_list(xs):
    for x in xs:
        if not isinstance(x, int) or isinstance(x, bool) or x < 0:
            raise ExtractError('expected natural numbers, got %r' % (x,))
    return '[' + ', '.join(str(x) for x in xs) + ']'


def lean_int(x):
    return str(x) if x >= 0 else '(%d)' % x


def lean_rat(x):
    """Exact Lean `Rat` literal for an int / Fraction."""
    fr = Fraction(x)
    if fr.denominator == 1:
        return '(%d : Rat)' % fr.numerator
    return '((%d : Rat) / %d)' % (fr.numerator, fr.denominator)


def lean_str(s):
    return '"' + s.replace('\\', '\\\\').replace('"', '\\"') + '"'


def lean_str_list(xs):
    return '[' + ', '.join(lean_str(x) for x in xs) + ']'


def write_if_changed(name, text):
    """Write lean/Ladybug/Gen/<name>.lean only when its content changed (keeps lake no-op)."""
    os.makedirs(GEN_DIR, exist_ok=True)
    path = os.path.join(GEN_DIR, name + '.lean')
    old = None
    if os.path.exists(path):
        with open(path, encoding='utf-8') as f:
            old = f.read()
    if old != text:
        tmp = path + '.tmp%d' % os.getpid()
        with open(tmp, 'w', encoding='utf-8') as f:
            f.write(text)
        os.replace(tmp, path)
        return True
    return False


HEADER = ('-- GENERATED by tools/extract/%s from %s on every check run. Do not edit by hand.\n'
          '-- (Regenerated from /repo; the file is rewritten only when its content changes.)\n')
