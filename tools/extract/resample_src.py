"""Gen/ResampleSrc.lean: what the C13 object machine (Model/ResampleObj.lean) reads off ladybug/datacollection.py.

  * contCullStrict   whether HourlyContinuousCollection has its own `convert_to_culled_timestep` that
                     asserts `<current timestep> % timestep == 0` before it culls in place
                     (fixes/C13_continuous_cull_in_place_divisor.patch).  Without that assertion the in-place
                     cull of a continuous collection to a timestep that does not divide its own leaves fewer
                     values than the header period has steps (the code as it was; recorded finding
                     C13-cont-inplace-cull-nondividing / C02-cont-cull-nondividing-timestep).

Only this one decision is read; every other shape of the method is modelled by hand and tied by the
correspondence run.  A continuous class without the method, or with a method that has no such assertion,
is modelled as inheriting the in-place cull of the discontinuous class.
"""
import ast

from .common import parse_file, find_class, write_if_changed, HEADER


def _is_divisibility_assert(st):
    """assert <expr> % timestep == 0 [, message]"""
    if not isinstance(st, ast.Assert):
        return False
    t = st.test
    return (isinstance(t, ast.Compare) and len(t.ops) == 1 and isinstance(t.ops[0], ast.Eq)
            and isinstance(t.left, ast.BinOp) and isinstance(t.left.op, ast.Mod)
            and isinstance(t.left.right, ast.Name) and t.left.right.id == 'timestep'
            and isinstance(t.comparators[0], ast.Constant) and t.comparators[0].value == 0)


def extract():
    tree, _ = parse_file('ladybug/datacollection.py')
    cls = find_class(tree, 'HourlyContinuousCollection')
    strict = False
    for n in cls.body:
        if isinstance(n, ast.FunctionDef) and n.name == 'convert_to_culled_timestep':
            strict = any(_is_divisibility_assert(st) for st in n.body)
    text = (HEADER % ('resample_src.py', 'ladybug/datacollection.py')) + '\n'.join([
        'namespace Gen.ResampleSrc',
        '/-- `HourlyContinuousCollection.convert_to_culled_timestep` refuses a timestep that does not divide the',
        '    current one. -/',
        'def contCullStrict : Bool := ' + ('true' if strict else 'false'),
        'end Gen.ResampleSrc', ''])
    write_if_changed('ResampleSrc', text)
    return {'cont_cull_strict': strict}


if __name__ == '__main__':
    print(extract())
