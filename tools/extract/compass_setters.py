"""Gen/CompassSetters.lean: what the C20 Compass state machine takes from ladybug/compass.py.

  * ALTITUDES                      the tabulated altitudes of the altitude circles (natural numbers)
  * radiusValidatesFirst           whether the `radius` setter checks the value before it stores it
  * spacingValidatesFirst          the same for `spacing_factor`

A setter is read as a sequence of statements: the position of the (first) `assert` relative to the
assignment to the slot (`self._radius = ...`) decides between "store, then assert" (a refused assignment
leaves the refused number on the object) and "assert, then store".  Any other shape is not recognised.
"""
import ast

from .common import (parse_file, find_class, find_assign, const_fold, lean_nat_list, write_if_changed,
                     ExtractError, HEADER)


def _setter(cls, name):
    for n in cls.body:
        if isinstance(n, ast.FunctionDef) and n.name == name and any(
                isinstance(d, ast.Attribute) and d.attr == 'setter' for d in n.decorator_list):
            return n
    raise ExtractError('Compass.%s setter not found' % name)


def _validates_first(fn, slot):
    store = check = None
    for i, st in enumerate(fn.body):
        if isinstance(st, ast.Assert) and check is None:
            check = i
        elif isinstance(st, ast.Assign) and any(
                isinstance(t, ast.Attribute) and t.attr == slot and isinstance(t.value, ast.Name)
                and t.value.id == 'self' for t in st.targets):
            if store is None:
                store = i
        elif isinstance(st, (ast.Assign, ast.Expr)):
            continue                      # a local name / a docstring
        else:
            raise ExtractError('Compass.%s setter: unexpected statement %s' % (fn.name, type(st).__name__))
    if store is None or check is None:
        raise ExtractError('Compass.%s setter: no store of self.%s or no assert' % (fn.name, slot))
    return check < store


def extract():
    tree, _ = parse_file('ladybug/compass.py')
    cls = find_class(tree, 'Compass')
    alts = const_fold(find_assign(cls, 'ALTITUDES'))
    if not isinstance(alts, list) or not alts or any(
            not isinstance(a, int) or isinstance(a, bool) or not 0 < a < 90 for a in alts):
        raise ExtractError('Compass.ALTITUDES is no longer a tuple of whole degrees in (0, 90)')
    rv = _validates_first(_setter(cls, 'radius'), '_radius')
    sv = _validates_first(_setter(cls, 'spacing_factor'), '_spacing_factor')
    text = (HEADER % ('compass_setters.py', 'ladybug/compass.py')) + '\n'.join([
        'namespace Gen.Compass',
        'def altitudes : List Nat := ' + lean_nat_list(alts),
        'def radiusValidatesFirst : Bool := ' + ('true' if rv else 'false'),
        'def spacingValidatesFirst : Bool := ' + ('true' if sv else 'false'),
        'end Gen.Compass', ''])
    write_if_changed('CompassSetters', text)
    return {'altitudes': alts, 'radius_validates_first': rv, 'spacing_validates_first': sv}


if __name__ == '__main__':
    print(extract())
