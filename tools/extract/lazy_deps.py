"""Gen/LazyDeps.lean: cache-dependency tables of the classes anchored by C18 (DESIGN.md 6, C18 (b)).

For every class the `ast` of its body is walked (no execution):

* attribute ids: every `self._x` that is read or written anywhere in the class;
* `init`: attributes assigned by `__init__` (transitively through `self.method()` calls);
* per property getter its *sites*: a site is a block of the getter that assigns cache attributes –
  either the body of a top-level `if <test on self._x>:` (guarded: runs only when the tested slot is
  empty) or the unguarded rest of the getter.  A site records the slots it fills (assignments of
  something other than the constant None), an id of its defining code (hash of the `ast.dump` of the
  block and of every helper method it calls), and every attribute its code reads, transitively through
  `self.method()` calls and through other properties.  A property read inside a block contributes
  its reads and the writes of its *unguarded* statements (that is what always runs when it is called);
* per getter `direct`: the attributes its own code (and the helpers it calls) load directly;
* per setter the attributes written and the attributes cleared (assigned None).

Attributes that are only ever assigned None anywhere in the class are dead and dropped.
Unsupported shapes raise ExtractError.

Round 3:
* sub-object paths: when some method of the class assigns an attribute of an object held in `self._x`
  (`self._header._unit = u`, `self.header._analysis_period = p` through the alias getter `header`, or
  through a local name bound to such an object), `_x` is *split*: reads and writes of `self._x.y...` are
  recorded as the pseudo attribute `_x.y` (leading underscore of `y` dropped), a method call on the
  sub-object or handing it to other code reads `_x.*` (every path), assigning `self._x` writes every path.
  So an in-place operation that swaps the header's analysis period is seen to invalidate what was derived
  from it, while a unit change is not.
* per setter / public mutating method `early`: the attributes it has already assigned (a value, not a
  clearing None) when a later statement of it can still refuse the call (assert / raise / float() / int()
  conversions / a helper method that asserts).  A refused call then leaves the object changed.
* `setattr(self, ..)`, `self.__dict__`, `vars(self)` are not understood: ExtractError.

Round 4:
* a public method that is not a setter-like method and that assigns a cache slot (a value) or loads one directly
  is entered as a GETTER `name()`: its guarded blocks are sites, a block under any other test of a slot is a
  `refine` with a code id of its own.  A query method that re-fills, converts or replaces a slot that the
  properties iterate (e.g. turning the cached list into a set for faster look-ups) then violates T1/T2 of
  `wellFormed` and the table machine answers `alias` for the property read after it.
* an override that delegates (`Base.m(self, ..)`, `super().m(..)`) has the effects of the base method it runs
  (e.g. HourlyContinuousCollection.convert_to_culled_timestep: check divisibility, then the base cull); a
  base call that cannot be resolved raises ExtractError.

Round 5:
* per setter / public mutating method `reads`: every attribute its code loads (tests, validation, a conditional
  store, the container it stores into), emitted into the table; `ClassTable.setterFrame` (decided in Lean for the
  classes whose setters are independent settings) demands that it is an attribute the setter assigns itself or
  one that no setter assigns.  A cross-field check in a setter (skip / clamp a minimum against the current
  maximum) makes setter calls non-commutative and falsifies it.
"""
import ast
import hashlib

from .common import parse_file, find_class, write_if_changed, ExtractError, HEADER, lean_str

CLASSES = [
    ('ladybug/viewsphere.py', 'ViewSphere'),
    ('ladybug/sql.py', 'SQLiteResult'),
    ('ladybug/analysisperiod.py', 'AnalysisPeriod'),
    ('ladybug/hourlyplot.py', 'HourlyPlot'),
    ('ladybug/windrose.py', 'WindRose'),
    ('ladybug/monthlychart.py', 'MonthlyChart'),
    ('ladybug/psychchart.py', 'PsychrometricChart'),
    ('ladybug/compass.py', 'Compass'),
    ('ladybug/datacollection.py', 'HourlyContinuousCollection'),
]
# base classes whose members are inherited (furthest first)
BASES = {'HourlyContinuousCollection': [('ladybug/_datacollectionbase.py', 'BaseCollection'),
                                        ('ladybug/datacollection.py', 'HourlyDiscontinuousCollection')]}


class Eff(object):
    def __init__(self):
        self.reads = set()        # every attribute read (transitive, incl. through properties)
        self.direct = set()       # attributes loaded by own code / helper methods
        self.writes = {}          # attr -> set of 'val' | 'none'
        self.code = []            # dumps of the helper bodies involved (for the expression id)

    def write(self, a, kind):
        self.writes.setdefault(a, set()).add(kind)

    def merge(self, o, direct=True, writes=True):
        self.reads |= o.reads
        if direct:
            self.direct |= o.direct
        if writes:
            for a, k in o.writes.items():
                self.writes.setdefault(a, set()).update(k)
        self.code += o.code


def _empty_guard(test):
    """Attributes of an emptiness test (`self._x is None`, `not self._x`, and/or of those), else None."""
    if isinstance(test, ast.Compare) and len(test.ops) == 1 and isinstance(test.ops[0], ast.Is) \
            and _is_self_attr(test.left) and isinstance(test.comparators[0], ast.Constant) \
            and test.comparators[0].value is None:
        return [test.left.attr]
    if isinstance(test, ast.UnaryOp) and isinstance(test.op, ast.Not) and _is_self_attr(test.operand):
        return [test.operand.attr]
    if isinstance(test, ast.BoolOp):
        out = []
        for v in test.values:
            g = _empty_guard(v)
            if g is None:
                return None
            out += g
        return out
    return None


def _is_self_attr(n):
    return isinstance(n, ast.Attribute) and isinstance(n.value, ast.Name) and n.value.id == 'self'


class ClassInfo(object):
    def __init__(self, rel, cname, full=False, bases=()):
        self.full = full      # full: property reads inline *all* their writes (for the dynamic cross-check)
        tree, _ = parse_file(rel)
        self.rel, self.cname = rel, cname
        cls = find_class(tree, cname)
        self.getters, self.setters, self.methods = {}, {}, {}
        # members inherited from base classes (nearest base last, the class itself overrides all)
        body = []
        owner_of = {}
        self.base_names = [bname for _, bname in bases]
        for brel, bname in bases:
            btree, _ = parse_file(brel)
            bb = find_class(btree, bname).body
            for n in bb:
                owner_of[id(n)] = bname
            body += bb
        for n in cls.body:
            owner_of[id(n)] = cname
        body += cls.body
        # methods of a base class that a nearer class overrides (reached by `Base.m(self, ..)` / `super().m(..)`)
        self.shadowed = {}
        self.funcnames = set(f.name for f in body if isinstance(f, ast.FunctionDef))
        # class-level attributes (shared by all instances until an instance assigns its own)
        self.class_attrs = set()
        for n in body:
            if isinstance(n, ast.Assign):
                for tg in n.targets:
                    if isinstance(tg, ast.Name) and tg.id.startswith('_') and not tg.id.startswith('__'):
                        self.class_attrs.add(tg.id)
        for f in body:
            if not isinstance(f, ast.FunctionDef):
                continue
            kind = 'method'
            for d in f.decorator_list:
                if isinstance(d, ast.Name) and d.id == 'property':
                    kind = 'getter'
                elif isinstance(d, ast.Attribute) and d.attr == 'setter':
                    kind = 'setter'
                elif isinstance(d, ast.Name) and d.id in ('staticmethod', 'classmethod'):
                    kind = 'static'
            if kind == 'getter':
                self.getters[f.name] = f
                self.setters.pop(f.name, None)      # an overriding property drops the inherited setter
                self.methods.pop(f.name, None)
            elif kind == 'setter':
                self.setters[f.name] = f
            elif kind == 'method':
                if f.name in self.methods:
                    prev = self.methods[f.name]
                    self.shadowed.setdefault(f.name, []).append((owner_of.get(id(prev)), prev))
                self.methods[f.name] = f
                self.getters.pop(f.name, None)
        if '__init__' not in self.methods:
            raise ExtractError('%s.%s: no __init__' % (rel, cname))
        self._memo = {}
        self._callfuncs = set()
        # alias getters: `return self._x` only
        self.alias = {}
        for gname, f in self.getters.items():
            b = [st for st in f.body if not (isinstance(st, ast.Expr) and isinstance(st.value, ast.Constant))]
            if len(b) == 1 and isinstance(b[0], ast.Return) and _is_self_attr(b[0].value) \
                    and b[0].value.attr.startswith('_'):
                self.alias[gname] = b[0].value.attr
        for f in body:
            if isinstance(f, ast.FunctionDef):
                for n in ast.walk(f):
                    if isinstance(n, ast.Call) and isinstance(n.func, ast.Name) and n.func.id in ('setattr', 'vars') \
                            and n.args and isinstance(n.args[0], ast.Name) and n.args[0].id == 'self':
                        raise ExtractError('%s.%s.%s: %s(self, ...) at line %d is not understood'
                                           % (rel, cname, f.name, n.func.id, n.lineno))
                    if _is_self_attr(n) and n.attr == '__dict__':
                        raise ExtractError('%s.%s.%s: self.__dict__ at line %d is not understood'
                                           % (rel, cname, f.name, n.lineno))
        # roots that are split into sub-object paths: some method assigns through them
        self.split = set()
        self.subpaths = {}
        self._locals = {}
        for f in body:
            if isinstance(f, ast.FunctionDef):
                amap = self._alias_map(f)
                for n in ast.walk(f):
                    tg = []
                    if isinstance(n, ast.Assign):
                        tg = n.targets
                    elif isinstance(n, ast.AugAssign):
                        tg = [n.target]
                    for t in tg:
                        for t1 in (t.elts if isinstance(t, (ast.Tuple, ast.List)) else [t]):
                            if isinstance(t1, ast.Attribute) and not _is_self_attr(t1):
                                r = self._chain(t1, amap)
                                if r and r[1]:
                                    self.split.add(r[0])

    def _self_root(self, n):
        """`self._x` or `self.<alias getter>` -> '_x', else None"""
        if _is_self_attr(n):
            if n.attr in getattr(self, 'alias', {}):
                return self.alias[n.attr]
            if n.attr.startswith('_') and not n.attr.startswith('__') and n.attr not in self.getters \
                    and n.attr not in self.funcnames:
                return n.attr
        return None

    def _alias_map(self, f):
        """local names bound (anywhere in the function) to a sub-object reached from self: name -> (root, sub)"""
        amap = {}
        for _ in range(2):
            for n in ast.walk(f):
                if isinstance(n, ast.Assign) and len(n.targets) == 1 and isinstance(n.targets[0], ast.Name) \
                        and isinstance(n.value, (ast.Attribute, ast.Name)):
                    if isinstance(n.value, ast.Name):
                        if n.value.id in amap:
                            amap[n.targets[0].id] = amap[n.value.id]
                        continue
                    root = self._self_root(n.value)
                    if root:
                        amap[n.targets[0].id] = (root, None)
                    else:
                        r = self._chain(n.value, amap)
                        if r:
                            amap[n.targets[0].id] = r
        return amap

    def _chain(self, n, amap):
        """an attribute chain `<root>.a.b` with root = self._x / self.<alias> / an aliased local name ->
        (root attribute, first sub-attribute without leading underscores) ; else None"""
        chain = []
        while isinstance(n, (ast.Attribute, ast.Subscript)):
            if isinstance(n, ast.Attribute):
                root = self._self_root(n)
                if root:
                    chain.reverse()
                    return (root, chain[0].lstrip('_') if chain else None)
                chain.append(n.attr)
            n = n.value
        if isinstance(n, ast.Name) and n.id in amap:
            chain.reverse()
            root, sub = amap[n.id]
            if sub is None:
                sub = chain[0].lstrip('_') if chain else None
            return (root, sub)
        return None

    def _path(self, root, sub):
        p = '%s.%s' % (root, sub if sub else '*')
        self.subpaths.setdefault(root, set()).add(p)
        return p

    # -- effects of a list of statements -----------------------------------------------------
    def effects(self, nodes, stack=(), fn=None):
        e = Eff()
        saved = getattr(self, '_amap', {})
        if fn is not None:
            self._amap = self._alias_map(fn)
        elif not hasattr(self, '_amap'):
            self._amap = {}
        try:
            for n in nodes:
                self._visit(n, e, stack)
        finally:
            self._amap = saved
        return e

    def _method_eff(self, name, stack):
        key = ('m', name)
        if key in stack:
            return Eff()
        if key not in self._memo:
            body = self.methods[name].body
            self._cur_amap = None
            ef = self.effects(body, stack + (key,), fn=self.methods[name])
            ef.code.append('%s:%s' % (name, ast.dump(ast.Module(body=body, type_ignores=[]))))
            self._memo[key] = ef
        return self._memo[key]

    def _base_call(self, n):
        """`Base.m(self, ...)` / `super().m(...)` / `super(C, self).m(...)` -> the function node it runs
        (None: not such a call).  Round 4 (an override that checks and then delegates to the base method)."""
        if not (isinstance(n, ast.Call) and isinstance(n.func, ast.Attribute)):
            return None
        base, name = n.func.value, n.func.attr
        owner = False
        if isinstance(base, ast.Name) and base.id in self.base_names + [self.cname] and n.args \
                and isinstance(n.args[0], ast.Name) and n.args[0].id == 'self':
            owner = base.id
        elif isinstance(base, ast.Call) and isinstance(base.func, ast.Name) and base.func.id == 'super':
            owner = None
        if owner is False:
            return None
        cands = self.shadowed.get(name, [])
        if owner is not None:
            cands = [c for c in cands if c[0] == owner]
        if cands:
            return cands[-1][1]
        if name in self.methods:        # not overridden: the inherited method itself
            return self.methods[name]
        if name in ('__init__',) or name.startswith('__'):
            return None
        raise ExtractError('%s.%s: call of base-class method %s at line %d cannot be resolved'
                           % (self.rel, self.cname, name, n.lineno))

    def _node_eff(self, fn, stack):
        key = ('n', id(fn))
        if key in stack:
            return Eff()
        if key not in self._memo:
            ef = self.effects(fn.body, stack + (key,), fn=fn)
            ef.code.append('%s:%s' % (fn.name, ast.dump(ast.Module(body=fn.body, type_ignores=[]))))
            self._memo[key] = ef
        return self._memo[key]

    def getter_parts(self, name, stack=(), fn=None):
        """(guarded blocks [(guard_attrs, stmts)], unguarded stmts) of a getter (or of the public method `fn`)."""
        f = fn if fn is not None else self.getters[name]
        body = list(f.body)
        if body and isinstance(body[0], ast.Expr) and isinstance(getattr(body[0], 'value', None), ast.Constant) \
                and isinstance(body[0].value.value, str):
            body = body[1:]
        blocks, rest = [], []
        for st in body:
            if isinstance(st, ast.If):
                g = sorted(set(n.attr for n in ast.walk(st.test) if _is_self_attr(n)
                               and n.attr.startswith('_') and n.attr not in self.getters))
                if g:
                    eg = _empty_guard(st.test)
                    if eg is not None and all(a.startswith('_') and a not in self.getters for a in eg):
                        blocks.append((sorted(set(eg)), st.test, st.body))
                    else:       # a value-dependent conditional: may refine a slot, is not a cache guard
                        blocks.append((None, st.test, st.body))
                    rest += st.orelse
                    continue
            rest.append(st)
        return blocks, rest

    def _prop_eff(self, name, stack):
        """Effect of *reading* property `name` from other code: all its reads; the writes of its
        unguarded statements only."""
        key = ('p', name)
        if key in stack:
            return Eff()
        if key not in self._memo:
            blocks, rest = self.getter_parts(name)
            st2 = stack + (key,)
            ef = Eff()
            un = self.effects(rest, st2)
            ef.merge(un, direct=False)
            for g, test, blk in blocks:
                b = self.effects([test] + blk, st2)
                ef.merge(b, direct=False, writes=self.full)
            ef.code = ['%s:%s' % (name, ast.dump(ast.Module(body=self.getters[name].body, type_ignores=[])))] \
                + ef.code
            self._memo[key] = ef
        return self._memo[key]

    def _visit(self, n, e, stack):
        if isinstance(n, ast.Call) and isinstance(n.func, ast.Attribute):
            self._callfuncs.add(id(n.func))
        if isinstance(n, ast.Attribute) and not _is_self_attr(n) and isinstance(n.ctx, ast.Load) \
                and id(n) not in self._callfuncs:
            r = self._chain(n, self._amap)
            if r and r[0] in self.split and r[1]:
                # a read of the sub-object path (a method of the sub-object may look at all of it)
                p = self._path(r[0], r[1])
                e.reads.add(p)
                e.direct.add(p)
        if isinstance(n, ast.Call) and isinstance(n.func, ast.Attribute) and not _is_self_attr(n.func):
            root = self._self_root(n.func.value) or (self._amap.get(n.func.value.id, (None, 1))[0]
                                                     if isinstance(n.func.value, ast.Name)
                                                     and self._amap.get(n.func.value.id, (None, 1))[1] is None
                                                     else None)
            if root in self.split:          # self._x.method(): may look at every path
                p = self._path(root, None)
                e.reads.add(p)
                e.direct.add(p)
        if isinstance(n, ast.Call):
            for a in list(n.args) + [k.value for k in n.keywords]:
                root = self._self_root(a) or (self._amap[a.id][0] if isinstance(a, ast.Name) and a.id in self._amap
                                              and self._amap[a.id][1] is None else None)
                if root in self.split:      # the sub-object is handed to other code
                    p = self._path(root, None)
                    e.reads.add(p)
                    e.direct.add(p)
        if _is_self_attr(n):
            a = n.attr
            if isinstance(n.ctx, ast.Load):
                if a in self.getters:
                    e.merge(self._prop_eff(a, stack), direct=False)
                elif a in self.funcnames:
                    pass            # (static) method reference; self.method() calls are handled below
                elif a.startswith('_') and not a.startswith('__'):
                    e.reads.add(a)
                    e.direct.add(a)
            else:
                if a in self.setters:
                    e.merge(self._setter_eff(a, stack), direct=False)
                elif a.startswith('_'):
                    e.write(a, 'val')
            return
        if isinstance(n, ast.Assign):
            is_none = isinstance(n.value, ast.Constant) and n.value.value is None
            for t in n.targets:
                self._target(t, e, stack, 'none' if is_none else 'val')
            self._visit(n.value, e, stack)
            return
        if isinstance(n, ast.AugAssign):
            self._target(n.target, e, stack, 'val')
            if _is_self_attr(n.target):
                e.reads.add(n.target.attr)
                e.direct.add(n.target.attr)
            self._visit(n.value, e, stack)
            return
        bfn = self._base_call(n)
        if bfn is not None:
            e.merge(self._node_eff(bfn, stack))
            for a in n.args:
                self._visit(a, e, stack)
            for k in n.keywords:
                self._visit(k.value, e, stack)
            return
        if isinstance(n, ast.Call) and _is_self_attr(n.func) and n.func.attr in self.methods:
            e.merge(self._method_eff(n.func.attr, stack))
            for a in n.args:
                self._visit(a, e, stack)
            for k in n.keywords:
                self._visit(k.value, e, stack)
            return
        if isinstance(n, ast.ClassDef):
            raise ExtractError('%s.%s: nested class at line %d' % (self.rel, self.cname, n.lineno))
        # a nested function / lambda: its body is counted as if it ran (closures over `self`)
        for c in ast.iter_child_nodes(n):
            self._visit(c, e, stack)

    def _target(self, t, e, stack, kind):
        if isinstance(t, (ast.Tuple, ast.List)):
            for x in t.elts:
                self._target(x, e, stack, 'val')
            return
        if _is_self_attr(t):
            if t.attr in self.setters:
                e.merge(self._setter_eff(t.attr, stack), direct=False)
            elif t.attr.startswith('_'):
                e.write(t.attr, kind)
            return
        if isinstance(t, ast.Attribute):
            r = self._chain(t, self._amap)
            if r and r[0] in self.split and r[1]:
                e.write(self._path(r[0], r[1]), 'val')
                e.reads.add(r[0])
                e.direct.add(r[0])
                return
        if isinstance(t, (ast.Subscript, ast.Attribute)):
            # self._x[i] = v / self._x.y = v : a write to (and read of) self._x
            base = t.value
            while isinstance(base, (ast.Subscript, ast.Attribute)) and not _is_self_attr(base):
                base = base.value
            if _is_self_attr(base) and base.attr.startswith('_') and base.attr not in self.getters:
                e.write(base.attr, 'val')
                e.reads.add(base.attr)
                e.direct.add(base.attr)
            if isinstance(t, ast.Subscript):
                self._visit(t.slice, e, stack)
            return
        if isinstance(t, (ast.Name, ast.Starred)):
            return
        raise ExtractError('%s.%s: unsupported assignment target at line %d'
                           % (self.rel, self.cname, getattr(t, 'lineno', 0)))

    def _setter_eff(self, name, stack):
        key = ('s', name)
        if key in stack:
            return Eff()
        if key not in self._memo:
            self._memo[key] = self.effects(self.setters[name].body, stack + (key,), fn=self.setters[name])
        return self._memo[key]

    # -- refused calls: what is already assigned when a later statement can still refuse --------------
    def _may_refuse(self, st, seen=()):
        for n in ast.walk(st):
            if isinstance(n, (ast.Assert, ast.Raise)):
                return True
            if isinstance(n, ast.Call):
                if isinstance(n.func, ast.Name) and n.func.id in ('float', 'int'):
                    return True
                if _is_self_attr(n.func) and n.func.attr in self.methods and n.func.attr not in seen:
                    if any(self._may_refuse(b, seen + (n.func.attr,)) for b in self.methods[n.func.attr].body):
                        return True
            if _is_self_attr(n) and isinstance(n.ctx, ast.Store) and n.attr in self.setters \
                    and n.attr not in seen:
                if any(self._may_refuse(b, seen + (n.attr,)) for b in self.setters[n.attr].body):
                    return True
        return False

    def early_writes(self, fn):
        """attributes that hold a newly assigned value when a LATER simple statement of `fn` may refuse"""
        written, early = set(), set()
        saved = getattr(self, '_amap', {})
        self._amap = self._alias_map(fn)

        def simple(st):
            # the value of an assignment is evaluated before the store: its own conversion is not 'later'
            if self._may_refuse(st) and not isinstance(st, (ast.Assign, ast.AugAssign)):
                early.update(written)
            elif isinstance(st, (ast.Assign, ast.AugAssign)) and self._may_refuse(st):
                early.update(written)
            ef = self.effects([st], (('early', fn.name),))
            written.update(a for a, k in ef.writes.items() if 'val' in k)

        def walk(stmts):
            for st in stmts:
                if isinstance(st, (ast.If, ast.For, ast.While, ast.With)):
                    if self._may_refuse(getattr(st, 'test', None) or getattr(st, 'iter', None) or ast.Pass()):
                        early.update(written)
                    walk(st.body)
                    walk(getattr(st, 'orelse', []))
                elif isinstance(st, ast.Try):
                    walk(st.body)
                    for h in st.handlers:
                        walk(h.body)
                    walk(st.orelse)
                    walk(st.finalbody)
                else:
                    simple(st)
        try:
            walk(fn.body)
        finally:
            self._amap = saved
        return early

    # -- the table ------------------------------------------------------------------------------
    def table(self):
        init = self.effects(self.methods['__init__'].body, (('m', '__init__'),))
        getters, setters = {}, {}
        all_writes = {}

        def note(w):
            for a, k in w.items():
                all_writes.setdefault(a, set()).update(k)
        note(init.writes)
        def build_getter(name, fn=None):
            blocks, rest = self.getter_parts(name, fn=fn)
            key = ('p', name)
            saved_amap = getattr(self, '_amap', {})
            if fn is not None:
                self._amap = self._alias_map(fn)
            try:
                return build_getter_body(name, key, blocks, rest)
            finally:
                self._amap = saved_amap

        def build_getter_body(name, key, blocks, rest):
            sites, refines = [], []
            reads, direct, clears = set(), set(), set()
            for g, test, blk in blocks:
                b = self.effects(blk, (key,))
                tst = self.effects([test], (key,))
                slots = sorted(a for a, k in b.writes.items() if 'val' in k)
                note(b.writes)
                reads |= b.reads | tst.reads
                direct |= b.direct | tst.direct
                if not slots:       # a plain conditional, not a cache fill
                    clears |= set(a for a, k in b.writes.items() if k == {'none'})
                    continue
                code = ast.dump(ast.Module(body=blk, type_ignores=[])) + '|' + '|'.join(sorted(set(b.code)))
                if g is None:       # value-dependent rewrite of slots (e.g. reporting_frequency text -> int)
                    clears |= set(a for a, k in b.writes.items() if k == {'none'})
                    refines.append({'slots': slots, 'code': ast.dump(test) + '?' + code})
                    continue
                sites.append({'guarded': True, 'guard': g, 'slots': slots, 'code': code,
                              'reads': sorted(b.reads | tst.reads),
                              'clears': sorted(a for a, k in b.writes.items() if k == {'none'})})
            un = self.effects(rest, (key,))
            note(un.writes)
            reads |= un.reads
            direct |= un.direct
            uslots = sorted(a for a, k in un.writes.items() if 'val' in k)
            clears = sorted(clears | set(a for a, k in un.writes.items() if k == {'none'}))
            if uslots:
                code = ast.dump(ast.Module(body=rest, type_ignores=[])) + '|' + '|'.join(sorted(set(un.code)))
                sites.append({'guarded': False, 'guard': [], 'slots': uslots, 'code': code,
                              'reads': sorted(reads), 'clears': []})
            return {'sites': sites, 'direct': sorted(direct), 'reads': sorted(reads),
                    'clears': clears, 'refines': refines}
        for name in sorted(self.getters):
            getters[name] = build_getter(name)
        for name in sorted(self.setters):
            ef = self._setter_eff(name, ())
            note(ef.writes)
            setters[name] = {'writes': sorted(a for a, k in ef.writes.items() if 'val' in k),
                             'clears': sorted(a for a, k in ef.writes.items() if k == {'none'}),
                             'reads': sorted(ef.reads), 'early': sorted(self.early_writes(self.setters[name]))}
        slots0 = set()
        for g in getters.values():
            for st in g['sites']:
                slots0.update(st['slots'])
        # public methods that write configuration attributes behave as setters too
        # (e.g. MonthlyChart.set_minimum_by_index)
        for name in sorted(self.methods):
            if name.startswith('_') or name in ('duplicate',):
                continue
            ef = self._method_eff(name, ())
            if any('val' in k and a not in slots0 for a, k in ef.writes.items()):
                note(ef.writes)
                setters[name + '()'] = {'writes': sorted(a for a, k in ef.writes.items() if 'val' in k),
                                        'clears': sorted(a for a, k in ef.writes.items() if k == {'none'}),
                                        'reads': sorted(ef.reads),
                                        'early': sorted(self.early_writes(self.methods[name]))}
        # round 4: a public read-only METHOD that fills, rewrites or directly loads a cache slot is a reader of the
        # cache like a property: it becomes a getter `name()` of the table (its blocks are sites / refines with
        # their own code ids), so the well-formedness conditions (one slot - one defining expression, a reader
        # fills what it loads, guards, ...) are demanded of it too and the table machine / the histories call it.
        self.method_getters = []
        for name in sorted(self.methods):
            if name.startswith('_') or name + '()' in setters or name in ('duplicate',):
                continue
            ef = self._method_eff(name, ())
            if any(('val' in k and a in slots0) for a, k in ef.writes.items()) or (set(ef.direct) & slots0):
                getters[name + '()'] = build_getter(name + '()', fn=self.methods[name])
                self.method_getters.append(name)
        dead = set(a for a, k in all_writes.items() if k == {'none'})
        # temporaries: an attribute that only unguarded blocks assign and that every getter loading it
        # assigns itself (unguarded) first is recomputed before each use - it is not a cache
        filled = {}
        for gname, g in getters.items():
            for st in g['sites']:
                for a in st['slots']:
                    filled.setdefault(a, []).append((gname, st))
        scratch = set()
        for a, lst in filled.items():
            if all(not st['guarded'] for _, st in lst) and not any(a in r['slots'] for g in getters.values()
                                                                    for r in g['refines']):
                readers = [gn for gn, g in getters.items() if a in g['direct']]
                if all(any(gn == g2 and not st['guarded'] for g2, st in lst) for gn in readers):
                    scratch.add(a)
        for g in getters.values():
            for st in g['sites']:
                st['slots'] = [a for a in st['slots'] if a not in scratch]
            g['sites'] = [st for st in g['sites'] if st['slots']]
        slots = set()
        for g in getters.values():
            for s in g['sites']:
                slots.update(s['slots'])
        # close site reads over directly read slots (a site reading slot b depends on what b's sites read)
        changed = True
        site_list = [s for g in getters.values() for s in g['sites']]
        while changed:
            changed = False
            for s in site_list:
                cur = set(s['reads'])
                for t in site_list:
                    if t is not s and set(t['slots']) & cur and not set(t['reads']) <= cur:
                        cur |= set(t['reads'])
                        changed = True
                s['reads'] = sorted(cur)
        # sub-object paths: `_x.*` stands for every path of `_x`; assigning `_x` assigns every path
        subs = {r: sorted(p for p in ps if not p.endswith('.*')) for r, ps in self.subpaths.items()}

        def xr(lst):
            out = set()
            for a in lst:
                if a.endswith('.*'):
                    out.update(subs.get(a[:-2], []))
                    out.add(a[:-2])
                else:
                    out.add(a)
            return sorted(out)

        def xw(lst):
            out = set(xr(lst))
            for a in list(out):
                out.update(subs.get(a, []))
            return sorted(out)
        for g in getters.values():
            for st in g['sites']:
                st['reads'] = xr(st['reads'])
            g['reads'] = xr(g['reads'])
            g['direct'] = xr(g['direct'])
        for st in setters.values():
            st['reads'] = xr(st['reads'])
            st['writes'] = xw(st['writes'])
            st['early'] = xw(st['early'])
        init_w = {}
        for a, k in init.writes.items():
            for b in xw([a]):
                init_w.setdefault(b, set()).update(k)
        init.writes = init_w
        aw = {}
        for a, k in all_writes.items():
            for b in xw([a]):
                aw.setdefault(b, set()).update(k)
        all_writes = aw
        attrs = set(init.writes) | set(all_writes)
        for g in getters.values():
            attrs |= set(g['reads'])
        for s in setters.values():
            attrs |= set(s['reads'])
        attrs |= self.class_attrs
        attrs = sorted(attrs - dead)

        def clean(lst):
            return [a for a in lst if a not in dead]
        codes = {}
        for gname in sorted(getters):
            g = getters[gname]
            for s in g['sites']:
                h = hashlib.sha1(s.pop('code').encode('utf-8')).hexdigest()
                s['expr'] = codes.setdefault(h, len(codes))
                for k in ('guard', 'slots', 'reads', 'clears'):
                    s[k] = clean(s[k])
            for k in ('direct', 'reads', 'clears'):
                g[k] = clean(g[k])
            rf = []
            for r in g['refines']:
                h = hashlib.sha1(r['code'].encode('utf-8')).hexdigest()
                e = codes.setdefault(h, len(codes))
                rf += [(a, e) for a in clean(r['slots'])]
            g['refines'] = rf
        for s in setters.values():
            for k in ('writes', 'clears', 'reads', 'early'):
                s[k] = clean(s[k])
        return {'class': self.cname, 'file': self.rel, 'attrs': attrs,
                'init': clean(sorted(init.writes)), 'shared': sorted(self.class_attrs - dead),
                'slots': sorted(slots - dead),
                'getters': getters, 'setters': setters, 'dead': sorted(dead), 'scratch': sorted(scratch)}


def tables():
    out = []
    for rel, cname in CLASSES:
        t = ClassInfo(rel, cname, bases=BASES.get(cname, ())).table()
        # totals per getter/setter with every nested property fully inlined: what a tracing run may touch
        fi = ClassInfo(rel, cname, full=True, bases=BASES.get(cname, ()))
        tot = {}
        for g in fi.getters:
            ef = fi.effects(fi.getters[g].body, (('p', g),))
            tot[g] = {'reads': sorted(ef.reads), 'writes': sorted(ef.writes)}
        for sname in fi.setters:
            ef = fi._setter_eff(sname, ())
            tot['set:' + sname] = {'reads': sorted(ef.reads), 'writes': sorted(ef.writes)}
        for m in fi.methods:
            if not m.startswith('_'):
                ef = fi._method_eff(m, ())
                tot['call:' + m] = {'reads': sorted(ef.reads), 'writes': sorted(ef.writes)}
        for g in t['getters']:
            if g.endswith('()') and 'call:' + g[:-2] in tot:
                tot[g] = tot['call:' + g[:-2]]
        t['totals'] = tot
        out.append(t)
    return out


def _ids(t, names):
    idx = {a: i for i, a in enumerate(t['attrs'])}
    return '[' + ', '.join(str(idx[a]) for a in names) + ']'


def to_lean(tabs):
    out = [HEADER % ('lazy_deps.py', ', '.join(rel for rel, _ in CLASSES)), 'import Ladybug.Model.Lazy', '',
           'namespace Gen.LazyDeps', 'open Lazy', '']
    names = []
    for t in tabs:
        ident = 'tbl' + t['class']
        names.append(ident)
        out.append('def %s : ClassTable where' % ident)
        out.append('  name := %s' % lean_str(t['class']))
        out.append('  attrs := [%s]' % ', '.join(lean_str(a) for a in t['attrs']))
        out.append('  init := %s' % _ids(t, t['init']))
        out.append('  shared := %s' % _ids(t, t['shared']))
        gl = []
        for gname in sorted(t['getters']):
            g = t['getters'][gname]
            sl = ['{ guarded := %s, guard := %s, slots := %s, expr := %d, reads := %s, clears := %s }'
                  % ('true' if s['guarded'] else 'false', _ids(t, s['guard']), _ids(t, s['slots']), s['expr'],
                     _ids(t, s['reads']), _ids(t, s['clears'])) for s in g['sites']]
            idx = {a: i for i, a in enumerate(t['attrs'])}
            rf = '[' + ', '.join('(%d, %d)' % (idx[a], e) for a, e in g['refines']) + ']'
            gl.append('    { name := %s, sites := [%s],\n      direct := %s, clears := %s, refines := %s }'
                      % (lean_str(gname), ',\n        '.join(sl), _ids(t, g['direct']), _ids(t, g['clears']), rf))
        out.append('  getters := [\n%s]' % ',\n'.join(gl))
        sl = ['    { name := %s, writes := %s, clears := %s, early := %s, reads := %s }'
              % (lean_str(sname), _ids(t, s['writes']), _ids(t, s['clears']), _ids(t, s['early']),
                 _ids(t, s['reads']))
              for sname, s in sorted(t['setters'].items())]
        out.append('  setters := [\n%s]' % ',\n'.join(sl))
        out.append('')
    out.append('def all : List ClassTable := [%s]' % ', '.join(names))
    out.append('')
    out.append('end Gen.LazyDeps')
    out.append('')
    return '\n'.join(out)


def extract():
    tabs = tables()
    write_if_changed('LazyDeps', to_lean(tabs))
    return tabs


if __name__ == '__main__':
    import json
    print(json.dumps(extract(), indent=1)[:6000])
