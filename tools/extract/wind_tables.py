"""Gen/WindTables.lean: WindProfile.TERRAIN_PARAMETERS, and per setter the attributes it assigns
and the cached denominators it recomputes; the two `_compute_*` helpers and `calculate_wind` must
have exactly the expected shape (compared as `ast`), otherwise the tie is reported broken."""
import ast

from .common import (parse_file, find_class, find_func, find_assign, const_fold, write_if_changed,
                     ExtractError, HEADER, lean_str, lean_rat)

REL = 'ladybug/windprofile.py'

EXPECTED = {
    '_compute_met_power_denom': '''
h_ratio = self._met_boundary_layer_height / self._meteorological_height
self._met_power_denom = h_ratio ** self._met_power_law_exponent
''',
    '_compute_met_log_denom': '''
h_ratio = self._meteorological_height / self._met_roughness_length
self._met_log_denom = math.log(h_ratio)
''',
    'calculate_wind': '''
if self._log_law:
    if height > self._roughness_length:
        met_log_num = math.log(height / self._roughness_length)
        return meteorological_wind_speed * (met_log_num / self._met_log_denom)
    return 0
else:
    h_ratio = (height / self._boundary_layer_height) ** self._power_law_exponent
    return h_ratio * (meteorological_wind_speed * self._met_power_denom)
''',
}
POW_READS = ['_met_boundary_layer_height', '_meteorological_height', '_met_power_law_exponent']
LOG_READS = ['_meteorological_height', '_met_roughness_length']

SETTERS = ['terrain', 'meteorological_terrain', 'meteorological_height', 'log_law',
           'boundary_layer_height', 'power_law_exponent', 'roughness_length',
           'met_boundary_layer_height', 'met_power_law_exponent', 'met_roughness_length']


def _body(func):
    body = list(func.body)
    if body and isinstance(body[0], ast.Expr) and isinstance(body[0].value, ast.Constant) \
            and isinstance(body[0].value.value, str):
        body = body[1:]
    return body


def _dump(stmts):
    return ast.dump(ast.Module(body=stmts, type_ignores=[]))


def _self_targets(t, out):
    if isinstance(t, (ast.Tuple, ast.List)):
        for x in t.elts:
            _self_targets(x, out)
    elif isinstance(t, ast.Attribute) and isinstance(t.value, ast.Name) and t.value.id == 'self':
        out.append(t.attr)


def extract():
    tree, _ = parse_file(REL)
    cls = find_class(tree, 'WindProfile')
    params = const_fold(find_assign(cls, 'TERRAIN_PARAMETERS'))
    terrains = const_fold(find_assign(cls, 'TERRAINS'))
    if sorted(params) != sorted(terrains):
        raise ExtractError('TERRAINS and TERRAIN_PARAMETERS keys differ')
    for k, v in params.items():
        if not (isinstance(v, list) and len(v) == 3):
            raise ExtractError('TERRAIN_PARAMETERS[%s] is not a triple' % k)
    for name, src in EXPECTED.items():
        got = _dump(_body(find_func(cls, name)))
        want = _dump(ast.parse(src).body)
        if got != want:
            raise ExtractError('WindProfile.%s no longer has the modelled body' % name)
    setters = {}
    for f in cls.body:
        if isinstance(f, ast.FunctionDef) and any(
                isinstance(d, ast.Attribute) and d.attr == 'setter' for d in f.decorator_list):
            writes, calls = [], []
            for n in ast.walk(f):
                if isinstance(n, ast.Assign):
                    for t in n.targets:
                        _self_targets(t, writes)
                elif isinstance(n, ast.AugAssign):
                    _self_targets(n.target, writes)
                elif isinstance(n, ast.Call) and isinstance(n.func, ast.Attribute) \
                        and isinstance(n.func.value, ast.Name) and n.func.value.id == 'self':
                    calls.append(n.func.attr)
            other = [c for c in calls if c not in ('_compute_met_power_denom', '_compute_met_log_denom',
                                                   '_check_terrain')]
            if other:
                raise ExtractError('setter %s calls unmodelled helper %s' % (f.name, other))
            setters[f.name] = {'writes': sorted(set(writes)),
                               'pow': '_compute_met_power_denom' in calls,
                               'log': '_compute_met_log_denom' in calls}
    if sorted(setters) != sorted(SETTERS):
        raise ExtractError('WindProfile setters changed: %s' % sorted(setters))
    init = _dump(_body(find_func(cls, '__init__')))
    want_init = _dump(ast.parse('''
self._meteorological_height = 10
self.terrain = terrain
self.meteorological_terrain = meteorological_terrain
self.meteorological_height = meteorological_height
self.log_law = log_law
''').body)
    if init != want_init:
        raise ExtractError('WindProfile.__init__ no longer has the modelled body')
    lines = [HEADER % ('wind_tables.py', REL), 'namespace Gen.Wind', '',
             '/-- TERRAIN_PARAMETERS: terrain ↦ (boundary layer height, power law exponent, roughness length). -/',
             'def terrainParams : List (String × Rat × Rat × Rat) := [']
    lines.append(',\n'.join('  (%s, %s, %s, %s)' % (lean_str(k), lean_rat(params[k][0]), lean_rat(params[k][1]),
                                                   lean_rat(params[k][2])) for k in terrains) + ']')
    lines.append('')
    lines.append('/-- per setter: attributes assigned, recomputes `_met_power_denom`, recomputes `_met_log_denom`. -/')
    lines.append('def setterTable : List (String × List String × Bool × Bool) := [')
    lines.append(',\n'.join('  (%s, [%s], %s, %s)' % (
        lean_str(n), ', '.join(lean_str(w) for w in setters[n]['writes']),
        'true' if setters[n]['pow'] else 'false', 'true' if setters[n]['log'] else 'false') for n in SETTERS) + ']')
    lines.append('')
    lines.append('def powDenReads : List String := [%s]' % ', '.join(lean_str(a) for a in POW_READS))
    lines.append('def logDenReads : List String := [%s]' % ', '.join(lean_str(a) for a in LOG_READS))
    lines += ['', 'end Gen.Wind', '']
    write_if_changed('WindTables', '\n'.join(lines))
    return {'params': params, 'terrains': terrains, 'setters': setters}


if __name__ == '__main__':
    print(extract())
