"""Gen/SkyTables.lean: constant tables of ladybug/skymodel.py (C10).

Extracted on every run (constants only, no control flow):
  * ashrae_clear_sky: MONTHLY_A, MONTHLY_B
  * zhang_huang_solar: the regression constants C0..C5, D_COEFF, K_COEFF (one tuple assignment)
  * estimate_illuminance_from_irradiance: the four Perez luminous-efficacy tables (8 x 4 each) and `kai`
  * _get_dirint_coeffs: the 6 x 6 x 7 x 5 DIRINT coefficient matrix
  * get_relative_airmass: the model names of the `elif '<name>' == model` chain
  * numeric default arguments of the functions, the default air-mass model, the `0.1 if dhi == 0` replacement
    (pinned against the hand model by theorem C10_constants_pinned; the formula bodies are translated by
    sky_formulas.py)

Tables used by the executable model are emitted polymorphically (`[OfScientific α] [Neg α]`) so the same
definition is run on Float by the driver and reasoned about over the reals; `…Rat` copies serve `decide`.
"""
import ast
from fractions import Fraction

from .common import (parse_file, find_func, const_fold, write_if_changed, ExtractError, HEADER)

SRC = 'ladybug/skymodel.py'


def _assign_in(func, name):
    for n in ast.walk(func):
        if isinstance(n, ast.Assign) and len(n.targets) == 1:
            t = n.targets[0]
            if isinstance(t, ast.Name) and t.id == name:
                return n.value
    raise ExtractError('%s: assignment to %s not found' % (func.name, name))


def _num_list(v, what, n=None):
    if not isinstance(v, list) or not all(isinstance(x, (int, Fraction)) and not isinstance(x, bool) for x in v):
        raise ExtractError('%s is not a flat list of numbers' % what)
    if n is not None and len(v) != n:
        raise ExtractError('%s: expected %d entries, found %d' % (what, n, len(v)))
    return [Fraction(x) for x in v]


def _dec(fr):
    """Exact decimal spelling `ddd.ddd` of a non-negative Fraction with a power-of-ten denominator."""
    fr = Fraction(fr)
    assert fr >= 0
    d = fr.denominator
    k = 0
    while d % 10 == 0:
        d //= 10
        k += 1
    if d != 1:
        # denominators 2^a 5^b: scale up to a power of ten
        k = 0
        while (fr * 10 ** k).denominator != 1:
            k += 1
            if k > 40:
                raise ExtractError('constant %s has no finite decimal form' % fr)
    m = int(fr * 10 ** k)
    s = str(m).rjust(k + 1, '0')
    return (s[:-k] + '.' + s[-k:]) if k else (s + '.0')


def lean_sci(fr):
    """Polymorphic Lean literal (needs OfScientific, and Neg for negative numbers)."""
    fr = Fraction(fr)
    return '(-%s)' % _dec(-fr) if fr < 0 else _dec(fr)


def lean_rat(fr):
    fr = Fraction(fr)
    return '((%d : Rat) / %d)' % (fr.numerator, fr.denominator)


def _poly_list(xs):
    return '[' + ', '.join(lean_sci(x) for x in xs) + ']'


def _rat_list(xs):
    return '[' + ', '.join(lean_rat(x) for x in xs) + ']'


def _literals(node):
    """Numeric literals below `node` in source order (unary minus folded into the literal)."""
    out = []

    def visit(n, sign=1):
        if isinstance(n, ast.Constant):
            if isinstance(n.value, (int, float)) and not isinstance(n.value, bool):
                out.append(sign * Fraction(repr(n.value)))
            return
        if isinstance(n, ast.UnaryOp) and isinstance(n.op, ast.USub) and isinstance(n.operand, ast.Constant):
            visit(n.operand, -sign)
            return
        for c in ast.iter_child_nodes(n):
            visit(c, 1)

    visit(node)
    return out


def _func_literals(func, skip_tables=()):
    out = []
    for st in func.body:
        if isinstance(st, ast.Expr) and isinstance(st.value, ast.Constant) and isinstance(st.value.value, str):
            continue                                    # docstring
        if isinstance(st, ast.Assign) and any(isinstance(t, ast.Name) and t.id in skip_tables
                                              for t in st.targets):
            continue
        out += _literals(st)
    return out


def _airmass_branches(func):
    """{model name: literals of that branch} from the if/elif chain `'<name>' == model`."""
    chain = None
    for n in ast.walk(func):
        if isinstance(n, ast.If) and isinstance(n.test, ast.Compare) and \
                isinstance(n.test.left, ast.Constant) and isinstance(n.test.left.value, str):
            chain = n
            break
    if chain is None:
        raise ExtractError('get_relative_airmass: model chain `\'name\' == model` not found')
    res = []
    node = chain
    while True:
        t = node.test
        if not (isinstance(t, ast.Compare) and isinstance(t.left, ast.Constant) and len(t.ops) == 1
                and isinstance(t.ops[0], ast.Eq) and isinstance(t.comparators[0], ast.Name)
                and t.comparators[0].id == 'model'):
            raise ExtractError('get_relative_airmass: unexpected test in the model chain')
        lits = []
        for st in node.body:
            lits += _literals(st)
        res.append((t.left.value, lits))
        if len(node.orelse) == 1 and isinstance(node.orelse[0], ast.If):
            node = node.orelse[0]
        else:
            if not (len(node.orelse) == 1 and isinstance(node.orelse[0], ast.Raise)):
                raise ExtractError('get_relative_airmass: chain does not end in `raise`')
            break
    return res


def _dirint_coeffs(func):
    table = {}
    for st in func.body:
        if isinstance(st, ast.Assign) and len(st.targets) == 1 and isinstance(st.targets[0], ast.Subscript):
            t = st.targets[0]
            try:
                j = const_fold(t.slice)
                i = const_fold(t.value.slice)
                ok = isinstance(t.value, ast.Subscript) and t.value.value.id == 'coeffs'
            except Exception:
                ok = False
            if not ok:
                raise ExtractError('_get_dirint_coeffs: unexpected assignment at line %d' % st.lineno)
            v = const_fold(st.value)
            if len(v) != 7 or any(len(r) != 5 for r in v):
                raise ExtractError('_get_dirint_coeffs: coeffs[%d][%d] is not 7 x 5' % (i, j))
            table[(i, j)] = [[Fraction(x) for x in r] for r in v]
    if sorted(table) != [(i, j) for i in range(6) for j in range(6)]:
        raise ExtractError('_get_dirint_coeffs: expected the 36 blocks coeffs[0..5][0..5]')
    return [[table[(i, j)] for j in range(6)] for i in range(6)]


def extract():
    tree, _ = parse_file(SRC)
    f_cs = find_func(tree, 'ashrae_clear_sky')
    a = _num_list(const_fold(_assign_in(f_cs, 'MONTHLY_A')), 'MONTHLY_A', 12)
    b = _num_list(const_fold(_assign_in(f_cs, 'MONTHLY_B')), 'MONTHLY_B', 12)

    f_zh = find_func(tree, 'zhang_huang_solar')
    zh_names = ['C0', 'C1', 'C2', 'C3', 'C4', 'C5', 'D_COEFF', 'K_COEFF']
    zh = None
    for n in ast.walk(f_zh):
        if isinstance(n, ast.Assign) and isinstance(n.targets[0], ast.Tuple) and \
                [getattr(e, 'id', None) for e in n.targets[0].elts] == zh_names:
            zh = _num_list(const_fold(n.value), 'Zhang-Huang constants', 8)
    if zh is None:
        raise ExtractError('zhang_huang_solar: tuple assignment of %s not found' % ', '.join(zh_names))
    defaults = [const_fold(d) for d in f_zh.args.defaults]
    if len(defaults) != 1:
        raise ExtractError('zhang_huang_solar: expected one default (irr_0)')
    irr0 = Fraction(defaults[0])

    f_il = find_func(tree, 'estimate_illuminance_from_irradiance')
    lum = {}
    for nm in ('glob_lum_eff_coeff', 'dir_lum_eff_coeff', 'diff_lum_eff_coeff', 'zen_lum_eff_coeff'):
        v = const_fold(_assign_in(f_il, nm))
        if len(v) != 8 or any(len(r) != 4 for r in v):
            raise ExtractError('%s is not 8 x 4' % nm)
        lum[nm] = [[Fraction(x) for x in r] for r in v]
    kai = Fraction(const_fold(_assign_in(f_il, 'kai')))
    il_lits = _func_literals(f_il, skip_tables=tuple(lum) + ('kai',))

    coeffs = _dirint_coeffs(find_func(tree, '_get_dirint_coeffs'))
    # Numeric defaults of the signatures (the formula bodies themselves are translated statement by statement
    # into Gen/SkyFormulas.lean by sky_formulas.py; what that translation does not see are the default
    # arguments the hand model relies on, the default air-mass model and the `0.1 if dhi == 0` replacement).
    def _defaults(name):
        f = find_func(tree, name)
        out = []
        for d in f.args.defaults:
            if isinstance(d, ast.Constant) and isinstance(d.value, (int, float)) and not isinstance(d.value, bool):
                out.append(Fraction(repr(d.value)))
        return out

    pinned = [(n, _defaults(n)) for n in (
        'ashrae_clear_sky', 'zhang_huang_solar', 'calc_sky_temperature', 'dirint', 'disc', '_disc_kn',
        'get_extra_radiation', 'clearness_index', 'clearness_index_zenith_independent', 'get_absolute_airmass')]
    repl = [n for n in ast.walk(f_il) if isinstance(n, ast.IfExp) and isinstance(n.test, ast.Compare)
            and isinstance(n.test.left, ast.Name) and n.test.left.id == 'dhi'
            and isinstance(n.test.ops[0], ast.Eq)]
    if len(repl) != 1:
        raise ExtractError('estimate_illuminance_from_irradiance: `<c> if dhi == 0 else dhi` not found')
    pinned.append(('illuminance:dhi_if_zero', [Fraction(const_fold(repl[0].test.comparators[0])),
                                               Fraction(const_fold(repl[0].body))]))
    f_am = find_func(tree, 'get_relative_airmass')
    am_default = [d.value for d in f_am.args.defaults if isinstance(d, ast.Constant) and isinstance(d.value, str)]
    if len(am_default) != 1:
        raise ExtractError('get_relative_airmass: default model name not found')
    am = _airmass_branches(f_am)
    am_names = [k for k, _ in am]

    poly = '{α : Type} [OfScientific α] [Neg α]'
    lines = [HEADER % ('sky_tables.py', SRC), 'namespace Gen.Sky', '',
             '/-- `MONTHLY_A` of `ashrae_clear_sky`. -/',
             'def monthlyA %s : List α := %s' % (poly, _poly_list(a)),
             '/-- `MONTHLY_B` of `ashrae_clear_sky`. -/',
             'def monthlyB %s : List α := %s' % (poly, _poly_list(b)),
             'def monthlyARat : List Rat := ' + _rat_list(a),
             'def monthlyBRat : List Rat := ' + _rat_list(b), '']
    for nm, v in zip(zh_names, zh):
        lean_nm = 'zh' + nm.replace('_COEFF', '').capitalize() if nm.endswith('_COEFF') else 'zh' + nm
        lines.append('def %s %s : α := %s' % (lean_nm, poly, lean_sci(v)))
    lines.append('def zhIrr0 %s : α := %s' % (poly, lean_sci(irr0)))
    lines.append('def zhConstsRat : List Rat := ' + _rat_list(zh + [irr0]))
    lines.append('')
    lines.append('def perezKai %s : α := %s' % (poly, lean_sci(kai)))
    for nm, lean_nm in (('glob_lum_eff_coeff', 'lumGlob'), ('dir_lum_eff_coeff', 'lumDir'),
                        ('diff_lum_eff_coeff', 'lumDiff'), ('zen_lum_eff_coeff', 'lumZen')):
        lines.append('/-- `%s` (Perez table 4), 8 sky-clearness categories x (a, b, c, d). -/' % nm)
        lines.append('def %s %s : List (List α) := [\n  %s]' % (
            lean_nm, poly, ',\n  '.join(_poly_list(r) for r in lum[nm])))
    lines.append('')
    lines.append('/-- `_get_dirint_coeffs()`: `[kt_prime_bin][altitude_bin][delta_kt_prime_bin][w_bin]`. -/')
    lines.append('def dirintCoeffs %s : List (List (List (List α))) := [' % poly)
    blocks = []
    for i in range(6):
        rows = []
        for j in range(6):
            rows.append('   [' + ',\n    '.join(_poly_list(r) for r in coeffs[i][j]) + ']')
        blocks.append('  [\n' + ',\n'.join(rows) + ']')
    lines.append(',\n'.join(blocks) + ']')
    flat = [x for i in range(6) for j in range(6) for r in coeffs[i][j] for x in r]
    lines.append('def dirintCoeffsFlatRat : List Rat := ' + _rat_list(flat))
    lines.append('')
    lines.append('/-- Default air-mass model and the model names of `get_relative_airmass` in source order. -/')
    lines.append('def airmassDefaultModel : String := "%s"' % am_default[0])
    lines.append('def airmassModelNames : List String := [%s]' % ', '.join('"%s"' % k for k in am_names))
    lines.append('/-- Numeric default arguments the hand model relies on (pinned against the hand model). -/')
    lines.append('def signatureDefaults : List (String × List Rat) := [')
    lines.append(',\n'.join('  ("%s", %s)' % (k, _rat_list(v)) for k, v in pinned) + ']')
    lines += ['', 'end Gen.Sky', '']
    write_if_changed('SkyTables', '\n'.join(lines))
    return {'monthly_a': a, 'monthly_b': b, 'zh': zh, 'irr0': irr0, 'kai': kai, 'lum': lum,
            'dirint': coeffs, 'airmass': am, 'pinned': pinned}


if __name__ == '__main__':
    r = extract()
    print({k: (len(v) if hasattr(v, '__len__') else v) for k, v in r.items()})
