"""Confirm a candidate breaking change written by an independent sub-agent and store it under seeded/<id>/.

    tools/confirm_seeded.py <candidate-dir> <new-id> [<candidate-dir> <new-id> ...]  [-j N]

For each candidate (a directory with patch.diff, demo.py, meta.json) this creates its own scratch
worktree of /repo HEAD under /tmp (not the sub-agent's), and confirms there:
  1. the demonstration passes on the unchanged tree,
  2. the patch applies cleanly,
  3. the demonstration fails with the change,
  4. the repository test-suite result is unchanged (416 passed, the one baseline failure).
Only when all four hold the candidate is copied to seeded/<new-id>/ with meta.json extended by
"confirmed" (what was run and what was seen).  The scratch worktree is removed again.
Development-time tool only (not a registered command).
"""
import json
import os
import re
import shutil
import subprocess
import sys
import tempfile
from concurrent.futures import ThreadPoolExecutor

ROOT = os.path.normpath(os.path.join(os.path.dirname(os.path.abspath(__file__)), '..'))
PY = '/venv/bin/python'


def sh(cmd, cwd, timeout=1500):
    p = subprocess.run(cmd, cwd=cwd, stdout=subprocess.PIPE, stderr=subprocess.STDOUT, timeout=timeout)
    return p.returncode, p.stdout.decode('utf-8', 'replace')


def confirm(cand, new_id):
    tmp = tempfile.mkdtemp(prefix='confirm_')
    wt = os.path.join(tmp, 'wt_' + os.path.basename(tmp))
    res = {'id': new_id, 'ok': False}
    try:
        subprocess.check_call(['git', '-C', '/repo', 'worktree', 'add', '--detach', wt, 'HEAD'],
                              stdout=subprocess.DEVNULL, stderr=subprocess.DEVNULL)
        head = subprocess.check_output(['git', '-C', wt, 'rev-parse', '--short', 'HEAD']).decode().strip()
        demo = os.path.join(cand, 'demo.py')
        patch = os.path.abspath(os.path.join(cand, 'patch.diff'))
        shutil.copy(demo, os.path.join(wt, 'demo.py'))
        rc0, out0 = sh([PY, 'demo.py'], wt, 900)
        res['demo_without'] = rc0
        rca, outa = sh(['git', 'apply', '--check', patch], wt)
        res['applies'] = (rca == 0)
        if rca != 0:
            res['why'] = 'patch does not apply: ' + outa[-300:]
            return res
        sh(['git', 'apply', patch], wt)
        rc1, out1 = sh([PY, 'demo.py'], wt, 900)
        res['demo_with'] = rc1
        res['demo_with_tail'] = out1.strip()[-400:]
        os.remove(os.path.join(wt, 'demo.py'))
        rct, outt = sh([PY, '-m', 'pytest', '-q', '-p', 'no:cacheprovider', '--timeout=900', 'tests'], wt)
        m = re.search(r'(\d+) failed, (\d+) passed', outt)
        m2 = re.search(r'(\d+) passed', outt)
        failed = int(m.group(1)) if m else 0
        passed = int(m.group(2)) if m else (int(m2.group(1)) if m2 else -1)
        only_known = 'test_sqlite_data_collections_by_output_name_single' in outt
        res['tests'] = '%d passed, %d failed' % (passed, failed)
        tests_ok = passed == 416 and failed == 1 and only_known
        res['ok'] = rc0 == 0 and rc1 != 0 and tests_ok
        if not res['ok']:
            res['why'] = 'demo_without=%s demo_with=%s tests=%s' % (rc0, rc1, res['tests'])
            return res
        dst = os.path.join(ROOT, 'seeded', new_id)
        os.makedirs(dst, exist_ok=True)
        shutil.copy(patch, os.path.join(dst, 'patch.diff'))
        shutil.copy(demo, os.path.join(dst, 'demo.py'))
        with open(os.path.join(cand, 'meta.json')) as f:
            meta = json.load(f)
        meta['round'] = int(os.environ.get('SEEDED_ROUND', '2'))
        meta['confirmed'] = {
            'repo_head': head,
            'ran': ['git worktree add --detach <scratch> HEAD', PY + ' demo.py  (unchanged tree)',
                    'git apply patch.diff', PY + ' demo.py  (with the change)',
                    PY + ' -m pytest -q -p no:cacheprovider tests  (with the change)'],
            'demo_without_change_exit': rc0, 'demo_with_change_exit': rc1,
            'demo_with_change_tail': out1.strip()[-300:], 'test_suite_with_change': res['tests'],
        }
        with open(os.path.join(dst, 'meta.json'), 'w') as f:
            json.dump(meta, f, indent=1)
        return res
    except Exception as e:  # noqa
        res['why'] = 'exception %r' % (e,)
        return res
    finally:
        subprocess.call(['git', '-C', '/repo', 'worktree', 'remove', '--force', wt],
                        stdout=subprocess.DEVNULL, stderr=subprocess.DEVNULL)
        shutil.rmtree(tmp, ignore_errors=True)
        subprocess.call(['git', '-C', '/repo', 'worktree', 'prune'])


def main():
    args = sys.argv[1:]
    jobs = 4
    if '-j' in args:
        i = args.index('-j')
        jobs = int(args[i + 1])
        del args[i:i + 2]
    pairs = list(zip(args[0::2], args[1::2]))
    with ThreadPoolExecutor(max_workers=jobs) as ex:
        for r in ex.map(lambda p: confirm(*p), pairs):
            print(json.dumps(r))
            sys.stdout.flush()


if __name__ == '__main__':
    main()
