"""Regenerate MANIFEST.json from harness/props/*.py (each module declares PROP, LEVEL_TEXT, LEVEL_NOTE,
TECHNIQUE, DESIGN_REF).  Properties without a module are listed under not_applicable with the reason
from PENDING below."""
import importlib
import json
import os
import sys

ROOT = os.path.normpath(os.path.join(os.path.dirname(os.path.abspath(__file__)), '..'))
sys.path.insert(0, ROOT)

ALL = ['C%02d' % i for i in range(1, 21)]
# properties whose check is finished and verified by the orchestrator (others stay pending)
READY = ALL
PENDING_REASON = 'check not built yet in this round (model/theorems/correspondence in progress); not claimed'


def main():
    checks = []
    na = []
    for pid in ALL:
        path = os.path.join(ROOT, 'harness', 'props', pid.lower() + '.py')
        if pid not in READY or not os.path.exists(path):
            na.append({'property_id': pid, 'reason': PENDING_REASON})
            continue
        mod = importlib.import_module('harness.props.' + pid.lower())
        if getattr(mod, 'NOT_CLAIMED', None):
            na.append({'property_id': pid, 'reason': mod.NOT_CLAIMED})
            continue
        checks.append({
            'property_id': pid,
            'quick_cmd': './check %s --tier quick' % pid,
            'thorough_cmd': './check %s --tier thorough' % pid,
            'evidence_file': 'evidence/%s.json' % pid,
            'replay_cmd_template': './check %s --replay {path}' % pid,
            'engine': 'lean4-model+correspondence',
            'level_claimed': {
                'category': 'proof',
                'text': mod.LEVEL_TEXT,
                'design_ref': getattr(mod, 'DESIGN_REF', 'DESIGN.md section 6, ' + pid),
            },
            'level_note': mod.LEVEL_NOTE,
            'technique': getattr(mod, 'TECHNIQUE', 'Lean 4 theorems about an executable model; model tied to '
                                 'the code by regenerated tables (translator) and a differential correspondence run'),
        })
    man = {
        'version': 1,
        'setup_cmd': './check --setup',
        'hooks': {
            'guard': 'LADYBUG_VERIF',
            'enable': 'no source hooks are needed: all observation is through the public API, `is`-identity '
                      'and tracing subclasses created by the harness (LADYBUG_VERIF is unused by /repo)',
            'baseline_off_cmd': 'cd /repo && /venv/bin/python -m pytest -ra -q -p no:cacheprovider --timeout=900 '
                                '--continue-on-collection-errors',
            'source_commits': [],
            'add_only': True,
        },
        'engines': [{
            'name': 'lean4-model+correspondence',
            'path': 'lean/ (lake project Ladybug), harness/, tools/extract/',
            'serves_properties': [c['property_id'] for c in checks],
            'kind_free_text': 'Lean 4.33 theorems over executable models (lean/Ladybug/Model, Props); Gen/*.lean '
                              'regenerated from /repo by tools/extract on every run; compiled model drivers '
                              '(drv_cXX) compared with the real ladybug code in-process by harness/props/cXX.py',
        }],
        'checks': checks,
        'not_applicable': na,
        'notes': 'See DESIGN.md. Exit codes: 0 held, 1 VIOLATION line, 2 machinery error/timeout. '
                 'Fix commits in /repo and open findings are listed in known_findings.json.',
    }
    with open(os.path.join(ROOT, 'MANIFEST.json'), 'w') as f:
        json.dump(man, f, indent=1)
        f.write('\n')
    print('checks:', [c['property_id'] for c in checks])


if __name__ == '__main__':
    main()
